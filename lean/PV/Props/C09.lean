import PV.Lemmas.SocketCalls
import PV.Lemmas.SocketIntegrity
/-!
# C09 — Sockets deliver data intact despite retries

All theorems are about the model `PV.Model.Socket` of `psocket.c` (tied to the C code by the
scripted differential runs of `tools/props/c09.py`) and hold for **every** script of native results.
-/
set_option linter.unusedSimpArgs false
namespace PV.Socket
open PV.Generated.Socket

/-! ## 1. EINTR / would-block transparency (blocking mode) -/

/-- `p_socket_receive`, blocking: the result on any script equals the result on the script with every
    `poll → EINTR` and every `poll → 1, recv → EINTR | EAGAIN` round removed. -/
theorem eintr_eagain_transparent_receive (s : Sock) (hb : s.blocking = true) (bufNull : Bool) (buflen : Nat)
    (script : Script) (e : Int) :
    seen (call s (.receive bufNull buflen) script e) =
    seen (call s (.receive bufNull buflen) (dropRetries .recv script e).1 (dropRetries .recv script e).2) := by
  rw [seen_call, seen_call]
  simp only [callM]
  rw [bind_pure_val, bind_pure_val]
  congr 1
  unfold receive
  cases bufNull with
  | true => rfl
  | false =>
    simp only [Bool.false_eq_true, if_false]
    cases hc : check s with
    | some pe => rfl
    | none =>
      simp only []
      exact bind_val_congr _ _ _ _ _ (loop_call_transparent s hb _ (recvCall s buflen) _ script e)

/-- `p_socket_receive_from`, blocking -/
theorem eintr_eagain_transparent_receive_from (s : Sock) (hb : s.blocking = true) (wantAddr bufNull : Bool) (buflen : Nat)
    (script : Script) (e : Int) :
    seen (call s (.receiveFrom wantAddr bufNull buflen) script e) =
    seen (call s (.receiveFrom wantAddr bufNull buflen) (dropRetries .recvfrom script e).1 (dropRetries .recvfrom script e).2) := by
  rw [seen_call, seen_call]
  simp only [callM]
  rw [bind_pure_val, bind_pure_val]
  congr 1
  unfold receiveFrom
  by_cases h0 : bufNull = true ∨ buflen = 0
  · simp only [h0, if_true]; rfl
  · simp only [h0, if_false]
    cases hc : check s with
    | some pe => rfl
    | none =>
      simp only []
      exact bind_val_congr _ _ _ _ _ (loop_call_transparent s hb _ (recvfromCall s buflen) _ script e)

/-- `p_socket_send`, blocking -/
theorem eintr_eagain_transparent_send (s : Sock) (hb : s.blocking = true) (buf : Option Bytes) (buflen : Nat)
    (script : Script) (e : Int) :
    seen (call s (.send buf buflen) script e) =
    seen (call s (.send buf buflen) (dropRetries .send script e).1 (dropRetries .send script e).2) := by
  rw [seen_call, seen_call]
  simp only [callM]
  rw [bind_pure_val, bind_pure_val]
  congr 1
  unfold send
  cases buf with
  | none => rfl
  | some b =>
    simp only []
    by_cases h0 : buflen = 0
    · simp only [h0, if_true]; rfl
    · simp only [h0, if_false]
      cases hc : check s with
      | some pe => rfl
      | none =>
        simp only []
        exact bind_val_congr _ _ _ _ _ (loop_call_transparent s hb _ (sendCall s b buflen) _ script e)

/-- `p_socket_send_to`, blocking -/
theorem eintr_eagain_transparent_send_to (s : Sock) (hb : s.blocking = true) (addr : Addr) (buf : Option Bytes) (buflen : Nat)
    (script : Script) (e : Int) :
    seen (call s (.sendTo addr buf buflen) script e) =
    seen (call s (.sendTo addr buf buflen) (dropRetries .sendto script e).1 (dropRetries .sendto script e).2) := by
  rw [seen_call, seen_call]
  simp only [callM]
  rw [bind_pure_val, bind_pure_val]
  congr 1
  unfold sendTo
  cases addr with
  | null => rfl
  | bad =>
    cases buf with
    | none => rfl
    | some b => simp only []; cases hc : check s <;> rfl
  | native sa =>
    cases buf with
    | none => rfl
    | some b =>
      simp only []
      cases hc : check s with
      | some pe => rfl
      | none =>
        simp only []
        exact bind_val_congr _ _ _ _ _ (loop_call_transparent s hb _ (sendtoCall s sa b buflen) _ script e)

/-- `p_socket_accept`, blocking (everything after the loop — FD_CLOEXEC, `p_socket_new_from_fd` — runs on
    the same remaining script with the same `errno`, hence gives the same socket object or the same error) -/
theorem eintr_eagain_transparent_accept (s : Sock) (hb : s.blocking = true) (script : Script) (e : Int) :
    seen (call s .accept script e) =
    seen (call s .accept (dropRetries .accept script e).1 (dropRetries .accept script e).2) := by
  rw [seen_call, seen_call]
  simp only [callM]
  rw [bind_pure_val, bind_pure_val]
  congr 1
  unfold accept
  cases hc : check s with
  | some pe => rfl
  | none =>
    simp only []
    exact bind_val_congr _ _ _ _ _ (loop_call_transparent s hb _ (.accept s.fd) _ script e)

/-- `p_socket_io_condition_wait` (any mode: it always waits): `poll → EINTR` results are invisible -/
theorem eintr_eagain_transparent_io_condition_wait (s : Sock) (cond : Int) (script : Script) (e : Int) :
    seen (call s (.ioWait cond) script e) =
    seen (call s (.ioWait cond) (dropPollEintr script e).1 (dropPollEintr script e).2) := by
  rw [seen_call, seen_call]
  simp only [callM]
  unfold ioWait
  cases hc : check s with
  | some pe => rfl
  | none =>
    simp only []
    apply bind_val_congr
    apply bind_full_congr
    apply liftLoop_full
    exact pollLoop_dropPollEintr _ script e

/-- `p_socket_connect`, any mode: `connect → EINTR` is answered by calling `connect` again; the result
    equals the result on the script with those answers removed -/
theorem eintr_eagain_transparent_connect (s : Sock) (addr : Addr) (script : Script) (e : Int) :
    seen (call s (.connect addr) script e) =
    seen (call s (.connect addr) (dropConnEintr script e).1 (dropConnEintr script e).2) := by
  rw [seen_call, seen_call]
  simp only [callM]
  unfold connect
  cases addr with
  | null => rfl
  | bad => cases hc : check s <;> rfl
  | native sa =>
    simp only []
    cases hc : check s with
    | some pe => rfl
    | none =>
      simp only []
      apply bind_val_congr
      apply liftLoop_full
      exact connLoop_dropConnEintr _ script e

/-- what is compared when `errno` may differ: the object, the return value and the error up to a stale native code -/
def sameUpToStaleErrno (a b : Except Stop CallResult) : Prop :=
  match a, b with
  | .error x, .error y => x = y
  | .ok x, .ok y =>
    x.sock = y.sock ∧ x.out.ret = y.out.ret ∧
    (match x.out.err, y.out.err with
      | none, none => True
      | some p, some q => p.eqv q
      | _, _ => False)
  | _, _ => False

/-- … and, in the blocking wait that follows an in-progress `connect`, `poll → EINTR` answers are
    invisible too (`connectAfter` is the part of `p_socket_connect` behind its `connect()` loop, see
    `connect_blocking`).  Here `errno` cannot be handed over in the middle of the script, so the
    comparison is up to the stale native code of the time-out error. -/
theorem eintr_eagain_transparent_connect_wait (s : Sock) (r : Res) (evs : List Ev) (rest : Script) (errno : Int) :
    sameUpToStaleErrno (connectAfter s r evs rest errno) (connectAfter s r evs (dropPollEintr rest errno).1 errno) := by
  unfold connectAfter
  by_cases h0 : r.ret = .ok 0
  · simp [h0, sameUpToStaleErrno]
  · simp only [h0, if_false]
    by_cases hw : ioFromSystem errno = P_ERROR_IO_WOULD_BLOCK ∨ ioFromSystem errno = P_ERROR_IO_IN_PROGRESS
    · simp only [hw, if_true]
      cases hb : s.blocking with
      | false => simp [sameUpToStaleErrno, failOut, PErr.eqv_refl]
      | true =>
        simp only [if_true]
        have h1 := pollLoop_dropPollEintr (pollCall s P_SOCKET_IO_CONDITION_POLLOUT) rest errno
        have h2 := pollLoop_errno (pollCall s P_SOCKET_IO_CONDITION_POLLOUT) (dropPollEintr rest errno).1 (dropPollEintr rest errno).2 errno
        simp only [LoopR.obs, Prod.mk.injEq] at h1
        obtain ⟨h1f, h1r, _⟩ := h1
        obtain ⟨h2f, h2r, _⟩ := h2
        rw [← h1f] at h2f
        rw [← h1r] at h2r
        generalize pollLoop (pollCall s P_SOCKET_IO_CONDITION_POLLOUT) rest errno = P at h2f h2r ⊢
        generalize pollLoop (pollCall s P_SOCKET_IO_CONDITION_POLLOUT) (dropPollEintr rest errno).1 errno = Q at h2f h2r ⊢
        cases hp : P.fin <;> cases hq : Q.fin <;> simp only [hp, hq, LoopEnd.eqv] at h2f ⊢
        · subst h2f
          rw [← h2r]
          cases P.rest with
          | nil => simp [sameUpToStaleErrno]
          | cons g rest' =>
            simp only []
            by_cases hs : g.sys ≠ .getsockopt
            · simp [hs, sameUpToStaleErrno]
            · simp only [hs, if_false]
              cases g.ret with
              | err x => simp [sameUpToStaleErrno, failOut, PErr.eqv_refl]
              | ok v => by_cases hv : g.val = 0 <;> simp [hv, sameUpToStaleErrno, failOut, PErr.eqv_refl]
        · simp [sameUpToStaleErrno, failOut, h2f]
        · simp [sameUpToStaleErrno, h2f]
    · simp [hw, sameUpToStaleErrno, failOut, PErr.eqv_refl]

/-- after `dropRetries` nothing is left to retry: on the reduced script the loop of a blocking data
    call makes at most one `poll` and one data call (so the equalities above really compare with a
    retry-free run) -/
theorem dropRetries_leaves_no_retry (c : LoopCfg) (hb : c.blocking = true) (script : Script) (e : Int) :
    (ioLoop c .wait (dropRetries c.call.sys script e).1 (dropRetries c.call.sys script e).2).evs.length ≤ 2 :=
  ioLoop_dropRetries_once c hb script e

/-- …and `p_socket_io_condition_wait` on the reduced script makes at most one `poll` -/
theorem dropPollEintr_leaves_no_retry (call : Issued) (script : Script) (e : Int) :
    (pollLoop call (dropPollEintr script e).1 (dropPollEintr script e).2).evs.length ≤ 1 :=
  pollLoop_dropPollEintr_once call script e

/-! ### "in particular the outcome is never an error whose native code is EINTR / EAGAIN"

The full statement is **false of the code**: `p_socket_io_condition_wait` builds its time-out error
with `p_error_get_last_net ()`, i.e. with whatever `errno` holds when `poll` returned 0 — after an
interrupted `poll` that is EINTR.  Witness below (`timed_out_error_carries_stale_EINTR`).  What holds:
unless the native code is such a stale `errno` (`PErr.stale`), it is never EINTR, and a would-block
code is never that of the data call. -/

/- full-strength statement (false):
theorem never_eintr_eagain_receive (s : Sock) (hb : s.blocking = true) (hc : s.closed = false) (n : Nat) (script e r pe)
    (h : call s (.receive false n) script e = .ok r) (he : r.out.err = some pe) :
    pe.native ≠ EINTR ∧ pe.native ≠ EAGAIN -/

theorem never_eintr_eagain_receive_partial (s : Sock) (hb : s.blocking = true) (hc : s.closed = false) (n : Nat)
    (script : Script) (e : Int) (r : CallResult) (pe : PErr)
    (h : call s (.receive false n) script e = .ok r) (he : r.out.err = some pe) (hst : pe.stale = false) :
    pe.native ≠ EINTR ∧ (pe.native = EAGAIN → pe.msg = msgPollFailed) := by
  rw [receive_eq s hc] at h
  obtain ⟨hf, _⟩ := ofLoop_ok_err _ _ _ _ _ pe (by intro x; rfl) h he
  obtain ⟨h1, h2⟩ := ioLoop_fail_native _ _ _ _ _ hf hst
  exact ⟨h1, fun h => h2 (by simp [recvCfg, loopCfg, hb]) (by rw [h]; exact io_EAGAIN)⟩

theorem never_eintr_eagain_send_partial (s : Sock) (hb : s.blocking = true) (hc : s.closed = false) (b : Bytes) (n : Nat)
    (hn : n ≠ 0) (script : Script) (e : Int) (r : CallResult) (pe : PErr)
    (h : call s (.send (some b) n) script e = .ok r) (he : r.out.err = some pe) (hst : pe.stale = false) :
    pe.native ≠ EINTR ∧ (pe.native = EAGAIN → pe.msg = msgPollFailed) := by
  rw [send_eq s hc b n hn] at h
  obtain ⟨hf, _⟩ := ofLoop_ok_err _ _ _ _ _ pe (by intro x; rfl) h he
  obtain ⟨h1, h2⟩ := ioLoop_fail_native _ _ _ _ _ hf hst
  exact ⟨h1, fun h => h2 (by simp [sendCfg, loopCfg, hb]) (by rw [h]; exact io_EAGAIN)⟩

theorem never_eintr_eagain_send_to_partial (s : Sock) (hb : s.blocking = true) (hc : s.closed = false) (sa b : Bytes) (n : Nat)
    (script : Script) (e : Int) (r : CallResult) (pe : PErr)
    (h : call s (.sendTo (.native sa) (some b) n) script e = .ok r) (he : r.out.err = some pe) (hst : pe.stale = false) :
    pe.native ≠ EINTR ∧ (pe.native = EAGAIN → pe.msg = msgPollFailed) := by
  rw [sendTo_eq s hc] at h
  obtain ⟨hf, _⟩ := ofLoop_ok_err _ _ _ _ _ pe (by intro x; rfl) h he
  obtain ⟨h1, h2⟩ := ioLoop_fail_native _ _ _ _ _ hf hst
  exact ⟨h1, fun h => h2 (by simp [sendtoCfg, loopCfg, hb]) (by rw [h]; exact io_EAGAIN)⟩

theorem never_eintr_io_condition_wait_partial (s : Sock) (hc : s.closed = false) (cond : Int)
    (script : Script) (e : Int) (r : CallResult) (pe : PErr)
    (h : call s (.ioWait cond) script e = .ok r) (he : r.out.err = some pe) (hst : pe.stale = false) :
    pe.native ≠ EINTR := by
  rw [ioWait_eq s hc] at h
  obtain ⟨hf, _⟩ := ofLoop_ok_err _ _ _ _ _ pe (by intro x; rfl) h he
  exact pollLoop_fail_native _ _ _ _ hf hst

/-- the loop of *any* data call (this is what accept / receive_from share with the above) -/
theorem never_eintr_eagain_loop_partial (c : LoopCfg) (ph : Phase) (script : Script) (e : Int) (pe : PErr)
    (h : (ioLoop c ph script e).fin = .fail pe) (hst : pe.stale = false) :
    pe.native ≠ EINTR ∧ (c.blocking = true → pe.native = EAGAIN → pe.msg = msgPollFailed) := by
  obtain ⟨h1, h2⟩ := ioLoop_fail_native _ _ _ _ _ h hst
  exact ⟨h1, fun hb h => h2 hb (by rw [h]; exact io_EAGAIN)⟩

def demoSock : Sock := { family := AF_INET, protocol := 6, type := 1, fd := 5, listen_backlog := 5, timeout := 50, blocking := true }
def pollR (r : Ret) : Res := { sys := .poll, ret := r }
def recvR (r : Ret) (d : Bytes := []) : Res := { sys := .recv, ret := r, data := d }
def sendR (r : Ret) : Res := { sys := .send, ret := r }

/-- the witness against the full statement: `poll → EINTR, poll → 0` gives TIMED_OUT with native code EINTR -/
theorem timed_out_error_carries_stale_EINTR :
    (call demoSock (.receive false 8) [pollR (.err EINTR), pollR (.ok 0)]).toOption.map (·.out.err) =
      some (some { code := P_ERROR_IO_TIMED_OUT, native := EINTR, msg := msgTimedOut, stale := true }) := by
  decide

/-- non-vacuity of transparency: three kinds of retries, then 3 bytes -/
example :
    (call demoSock (.receive false 8)
        [pollR (.err EINTR), pollR (.ok 1), recvR (.err EAGAIN), pollR (.ok 1), recvR (.err EINTR), pollR (.ok 1), recvR (.ok 3) [1, 2, 3]]).toOption.map
      (fun r => (r.out.ret, r.out.data, r.tr.length)) = some (3, [1, 2, 3], 7)
    ∧ dropRetries .recv [pollR (.err EINTR), pollR (.ok 1), recvR (.err EAGAIN), pollR (.ok 1), recvR (.err EINTR), pollR (.ok 1), recvR (.ok 3) [1, 2, 3]] 0
      = ([pollR (.ok 1), recvR (.ok 3) [1, 2, 3]], EINTR) := by
  decide

/-! ## 2. `returns_kernel_count` -/

/-- `p_socket_send`: a successful call returns exactly the count of the one native `send` that
    succeeded, every `send` issued carries the caller's buffer (offset 0), `(socklen_t) buflen`, and the
    flags of T6, and no native call follows the successful one. -/
theorem returns_kernel_count_send (s : Sock) (hc : s.closed = false) (b : Bytes) (n : Nat) (hn : n ≠ 0)
    (script : Script) (e : Int) (r : CallResult)
    (h : call s (.send (some b) n) script e = .ok r) (hok : r.out.err = none) :
    ∃ k res pre, OneDataCall (.send s.fd 0 (toSocklen n) sendFlags (b.take (toSocklen n).toNat)) script r k res pre := by
  rw [send_eq s hc b n hn] at h
  exact one_data_call s (sendCfg s b n) (by simp [sendCfg, loopCfg, pollCall, sendCall])
    (by simp [sendCfg, loopCfg, pollCall, sendCall, Issued.sys]) _ _ (by intro x; rfl) (by intro x; rfl) script e r h hok

/-- `p_socket_receive`: the same, and the bytes handed to the caller are the kernel's, cut to the count and the length -/
theorem returns_kernel_count_receive (s : Sock) (hc : s.closed = false) (n : Nat)
    (script : Script) (e : Int) (r : CallResult)
    (h : call s (.receive false n) script e = .ok r) (hok : r.out.err = none) :
    ∃ k res pre, OneDataCall (.recv s.fd 0 (toSocklen n) recvFlags) script r k res pre ∧
      r.out.data = res.data.take (min k (toSocklen n).toNat) := by
  rw [receive_eq s hc] at h
  obtain ⟨k, res, pre, hone⟩ := one_data_call s (recvCfg s n) (by simp [recvCfg, loopCfg, pollCall, recvCall])
    (by simp [recvCfg, loopCfg, pollCall, recvCall, Issued.sys]) _ _ (by intro x; rfl) (by intro x; rfl) script e r h hok
  refine ⟨k, res, pre, hone, ?_⟩
  obtain ⟨res', hf, hr'⟩ := ofLoop_ok_noerr _ _ _ _ _ (by intro x; rfl) h hok
  have htr := hone.trace
  subst hr'
  obtain ⟨pre', h1, _⟩ := ioLoop_done (recvCfg s n) (by simp [recvCfg, loopCfg, pollCall, recvCall]) _ script e res' hf
  simp only at htr
  rw [h1] at htr
  have : res' = res := by
    have := congrArg List.getLast? htr
    simpa using this
  subst this
  simp [delivered, hone.count]

theorem returns_kernel_count_send_to (s : Sock) (hc : s.closed = false) (sa b : Bytes) (n : Nat)
    (script : Script) (e : Int) (r : CallResult)
    (h : call s (.sendTo (.native sa) (some b) n) script e = .ok r) (hok : r.out.err = none) :
    ∃ k res pre, OneDataCall (.sendto s.fd 0 (toSocklen n) sendtoFlags (b.take (toSocklen n).toNat) sa (Int.ofNat sa.length)) script r k res pre := by
  rw [sendTo_eq s hc] at h
  exact one_data_call s (sendtoCfg s sa b n) (by simp [sendtoCfg, loopCfg, pollCall, sendtoCall])
    (by simp [sendtoCfg, loopCfg, pollCall, sendtoCall, Issued.sys]) _ _ (by intro x; rfl) (by intro x; rfl) script e r h hok

/-- "the caller's length passed unchanged" holds below 4 GiB: `psize` is narrowed with `(socklen_t) buflen` -/
theorem length_unchanged_partial (n : Nat) (h : n < 2 ^ 32) : toSocklen n = Int.ofNat n := toSocklen_eq n h

/-- …and not above: a 4 GiB + 1 byte buffer is offered to the kernel as 1 byte -/
theorem length_truncated_witness : toSocklen (2 ^ 32 + 1) = 1 := by decide

example : ∃ r, call demoSock (.send (some [9, 8, 7]) 3) [pollR (.ok 1), sendR (.err EINTR), pollR (.ok 1), sendR (.ok 2), sendR (.ok 1)] = .ok r
    ∧ r.out.ret = 2 ∧ r.rest = [sendR (.ok 1)] ∧ r.out.err = none := by
  refine ⟨_, rfl, ?_, ?_, ?_⟩ <;> decide

/-- for **every** API call and script: each `poll` in the log is the socket's own wait, and each data call
    (send, sendto, recv, recvfrom, accept, connect) is the one data call of that API function with the caller's
    buffer, `(socklen_t) buflen` and the flags of T6 — on every retry -/
theorem data_calls_carry_callers_arguments (s : Sock) (c : Call) (script : Script) (e : Int) (r : CallResult)
    (h : call s c script e = .ok r) : ∀ ev ∈ r.tr, Allowed s c ev :=
  TrAll.of_call s c (callM_allowed s c) script e r h

/-! ## 5. `no_sigpipe`

What the code does (T6): `send` is given `MSG_NOSIGNAL`; **`sendto` is given flags 0**, so for
`p_socket_send_to` the only protection is the process-wide `signal (SIGPIPE, SIG_IGN)` of
`p_socket_init_once` (run by `p_libsys_init`).  Hence, the kernel keeping its contract (a write to a
vanished peer with MSG_NOSIGNAL or with SIGPIPE ignored fails with EPIPE / ECONNRESET and raises nothing),
the caller gets an error outcome, not a signal. -/

/-- every `send` issued by any API call carries MSG_NOSIGNAL -/
theorem no_sigpipe_send (s : Sock) (c : Call) (script : Script) (e : Int) (r : CallResult)
    (h : call s c script e = .ok r) :
    ∀ ev ∈ r.tr, ∀ fd off len flags data, ev.call = .send fd off len flags data → flags.toNat &&& MSG_NOSIGNAL.toNat ≠ 0 := by
  intro ev hev fd off len flags data hc
  rcases data_calls_carry_callers_arguments s c script e r h ev hev with h1 | ⟨cond, h1⟩ | h1
  · simp [hc, criticalSys, Issued.sys] at h1
  · simp [hc, pollCall] at h1
  · rw [hc] at h1
    cases c <;> simp [dataCallOf] at h1
    case receive bn n => cases bn <;> simp [dataCallOf, recvCall] at h1
    case receiveFrom w bn n => cases bn <;> simp [dataCallOf, recvfromCall] at h1
    case send b n =>
      cases b <;> simp [dataCallOf, sendCall] at h1
      obtain ⟨_, _, _, hf, _⟩ := h1
      subst hf; decide
    case sendTo a b n => cases a <;> cases b <;> simp [dataCallOf, sendtoCall] at h1
    case connect a => cases a <;> simp [dataCallOf, connCall] at h1

/-- `sendto` carries MSG_NOSIGNAL as well (since the fix of `p_socket_send_to`; before it the flags were 0 and
    the call relied on SIGPIPE being ignored process-wide) -/
theorem no_sigpipe_send_to : sendtoFlags.toNat &&& MSG_NOSIGNAL.toNat = MSG_NOSIGNAL.toNat := by decide

/-- independently, `p_socket_init_once` sets SIGPIPE to SIG_IGN for the whole process -/
theorem init_once_ignores_sigpipe :
    runM initOnce [{ sys := .signal, ret := .ok 0 }] 0 =
      .ok ((), { script := [], errno := 0 }, [⟨.signal SIGPIPE true, { sys := .signal, ret := .ok 0 }⟩]) := by
  rfl

/-- a vanished peer: the kernel answers EPIPE (or ECONNRESET); the blocking caller gets `−1` and an error with that
    native code (PErrorIO FAILED — the table has no entry for them), after exactly one `send` -/
theorem vanished_peer_is_an_error (s : Sock) (hc : s.closed = false) (hb : s.blocking = true) (b : Bytes) (n : Nat) (hn : n ≠ 0)
    (x : Int) (hx : x = EPIPE ∨ x = ECONNRESET) (rest : Script) (e : Int) :
    (call s (.send (some b) n) ({ sys := .poll, ret := .ok 1 } :: { sys := .send, ret := .err x } :: rest) e).toOption.map
      (fun r => (r.out.ret, r.out.err, r.rest)) =
    some (-1, some { code := P_ERROR_IO_FAILED, native := x, msg := "Failed to call send() on socket" }, rest) := by
  rw [send_eq s hc b n hn]
  have hs : startPhase (sendCfg s b n) = .wait := by simp [startPhase, sendCfg, loopCfg, hb]
  have hx4 : x ≠ EINTR := by rcases hx with h | h <;> (subst h; decide)
  have hio : ioFromSystem x = P_ERROR_IO_FAILED := by rcases hx with h | h <;> (subst h; decide)
  have hd : dataStep (sendCfg s b n) { sys := .send, ret := .err x } =
      .fail { code := P_ERROR_IO_FAILED, native := x, msg := "Failed to call send() on socket" } x := by
    have : ¬ ((sendCfg s b n).blocking = true ∧ ioFromSystem x = P_ERROR_IO_WOULD_BLOCK) := by
      rw [hio]; intro h; exact absurd h.2 (by decide)
    simp [dataStep, hx4, hio, sendCfg, loopCfg]
    intro _; decide
  rw [hs, ioLoop_wait_cons]
  have hp : pollStep { sys := .poll, ret := .ok 1 } e = .ready := by simp [pollStep]
  simp only [ne_eq, not_true_eq_false, if_false, hp]
  rw [ioLoop_data_cons]
  have hsys : (sendCfg s b n).call.sys = Sys.send := by simp [sendCfg, loopCfg, sendCall, Issued.sys]
  simp [hsys, hd, LoopR.cons, ofLoop, failOut, Except.toOption]

/-! ## 6. `connect_blocking` -/

/-- `p_socket_connect` on an open socket **is**: the `connect()` loop (EINTR → call again), then
    `connectAfter`: result 0 → TRUE, connected; `errno` mapping to IN_PROGRESS / WOULD_BLOCK → in blocking mode
    wait for POLLOUT with the socket's timeout (`pollLoop`, EINTR → poll again) and let
    `getsockopt (SO_ERROR)` decide (0 → TRUE, connected; `v` → FALSE with (`ioFromSystem v`, `v`), not connected),
    in non-blocking mode report it at once; any other `errno` → that error. -/
theorem connect_blocking (s : Sock) (hc : s.closed = false) (sa : Bytes) (script : Script) (e : Int) :
    call s (.connect (.native sa)) script e = connectResult s (connLoop (connCall s sa) script e) :=
  connect_eq s hc sa script e

/-- reading of `connect_blocking` on the canonical script: EINTR, then EINPROGRESS, an interrupted wait, ready, SO_ERROR = 0 -/
example : (call demoSock (.connect (.native [2, 0, 0, 80, 127, 0, 0, 1]))
      [{ sys := .connect, ret := .err EINTR }, { sys := .connect, ret := .err EINPROGRESS }, pollR (.err EINTR), pollR (.ok 1),
       { sys := .getsockopt, ret := .ok 0, val := 0 }]).toOption.map
      (fun r => (r.out.ret, r.sock.connected, r.tr.map (·.call.sys))) =
    some (1, true, [.connect, .connect, .poll, .poll, .getsockopt]) := by decide

/-- … and with SO_ERROR = ECONNREFUSED -/
example : (call demoSock (.connect (.native [2, 0, 0, 80, 127, 0, 0, 1]))
      [{ sys := .connect, ret := .err EINPROGRESS }, pollR (.ok 1), { sys := .getsockopt, ret := .ok 0, val := ECONNREFUSED }]).toOption.map
      (fun r => (r.out.ret, r.sock.connected, r.out.err.map (fun e => (e.code, e.native)))) =
    some (0, false, some (P_ERROR_IO_CONNECTION_REFUSED, ECONNREFUSED)) := by decide

/-- non-blocking: in progress is reported at once, one native call -/
example : (call { demoSock with blocking := false } (.connect (.native [2, 0, 0, 80, 127, 0, 0, 1]))
      [{ sys := .connect, ret := .err EINPROGRESS }, pollR (.ok 1)]).toOption.map
      (fun r => (r.out.ret, r.out.err.map (·.code), r.tr.length, r.rest.length)) =
    some (0, some P_ERROR_IO_IN_PROGRESS, 1, 1) := by decide

/-! ## 3. `stream_integrity`  (kernel contract: `pipeSendOk` / `pipeRecvOk` of `PV.Model.Socket`, trusted)

A run is any list of `p_socket_send` / `p_socket_receive` calls on open sockets in any mode, each with
**any** script the kernel contract allows for the current pipe (`runOk`, `stepOk`, `pipeTrace` in
`PV.Lemmas.SocketIntegrity`): EINTR / would-block / short transfers / poll time-outs / hard errors in
any positions, any chunk and buffer sizes below 4 GiB.  `sent` accumulates the prefixes the sender was
*told* were sent (`buf.take ret`), `received` the bytes successful receives handed out. -/

/-- no loss, no duplication, no reordering, no corruption: what was received, followed by what is still
    in flight, is exactly what was reported sent -/
theorem stream_integrity (steps : List IOStep) (σ : StreamState) (h : runOk {} steps σ) :
    σ.received ++ σ.pipe = σ.sent :=
  stream_integrity_run steps σ h

/-- one call: a successful send moved exactly the reported prefix into the pipe, a failed one nothing (so
    retrying the whole buffer after an error duplicates nothing) -/
theorem send_moves_reported_prefix (s : Sock) (hc : s.closed = false) (b : Bytes) (h0 : b.length ≠ 0) (hlt : b.length < 2 ^ 32)
    (script : Script) (e : Int) (r : CallResult) (h : call s (.send (some b) b.length) script e = .ok r)
    (p p' : Pipe) (hk : pipeTrace p r.tr p') :
    match r.out.err with
    | none => ∃ k, r.out.ret = Int.ofNat k ∧ 1 ≤ k ∧ k ≤ b.length ∧ p' = p ++ b.take k
    | some _ => p' = p :=
  send_pipe s hc b h0 hlt script e r h p p' hk

/-- non-vacuity: interrupted + short write of `[1,2,3]`, then an interrupted non-blocking read -/
example : ∃ σ, runOk {} [.sendStep demoTx [1, 2, 3] demoTxScript 0, .recvStep demoRx 8 demoRxScript 0] σ ∧ σ.received = [1, 2] ∧ σ.sent = [1, 2] :=
  ⟨_, demo_run, rfl, rfl⟩

/-! ## 4. `datagram_exact`  (kernel contract: `bagRecvOk`, trusted) -/

/-- a successful `p_socket_receive_from` hands out exactly ONE queued datagram, cut to the receive buffer
    length, removes exactly that one from the queue, and calls `p_socket_address_new_from_native` with the
    kernel's sockaddr and the kernel's length for it (the result of that opaque conversion — C17 — is what
    `*address` gets) -/
theorem datagram_exact (s : Sock) (hc : s.closed = false) (buflen : Nat) (h0 : 0 < buflen) (hlt : buflen < 2 ^ 32)
    (script : Script) (e : Int) (r : CallResult)
    (h : call s (.receiveFrom true false buflen) script e = .ok r) (hok : r.out.err = none)
    (bag bag' : Bag) (hsa : ∀ x ∈ bag, x.2.length ≤ 128) (hk : bagTrace bag r.tr bag') :
    ∃ d sa l1 l2 pre res a,
      bag = l1 ++ (d, sa) :: l2 ∧ bag' = l1 ++ l2 ∧
      r.out.ret = Int.ofNat (min d.length buflen) ∧ r.out.data = d.take buflen ∧
      r.tr = pre ++ [⟨recvfromCall s buflen, res⟩, ⟨.fromNative sa (Int.ofNat sa.length), a⟩] ∧
      res.ret = .ok (min d.length buflen) ∧
      (∀ ev ∈ pre, ev.call = recvfromCall s buflen → ev.res.failed = true) ∧
      (∀ ev ∈ pre, ev.call = pollCall s P_SOCKET_IO_CONDITION_POLLIN ∨ ev.call = recvfromCall s buflen) ∧
      r.out.addr = (if a.ret = .ok 0 then none else some (sa, Int.ofNat sa.length)) :=
  datagram_exact_call s hc buflen h0 hlt script e r h hok bag bag' hsa hk

/-- a failed `p_socket_receive_from` consumed no datagram -/
theorem datagram_failed_consumes_nothing (s : Sock) (hc : s.closed = false) (buflen : Nat) (h0 : 0 < buflen)
    (script : Script) (e : Int) (r : CallResult)
    (h : call s (.receiveFrom true false buflen) script e = .ok r) (pe : PErr) (herr : r.out.err = some pe)
    (bag bag' : Bag) (hk : bagTrace bag r.tr bag') : bag' = bag :=
  datagram_failed_keeps_queue s hc buflen h0 script e r h pe herr bag bag' hk

/-! ## translator ties T6 / T7: the loops and flags of the model are the loops and flags of the source

`tools/extract.py` matches the whole body of every function with a retry loop against the statement shape
`ioLoop` / `pollLoop` / `connLoop` transliterate (anything else is refused) and records the constants in the
holes of that shape; here they are compared with the constants the model uses. -/

/-- every retry loop: wait for the right condition, retry on `EINTR`, retry on the library's would-block class
    (blocking mode), report everything else with the function's failure value -/
theorem loop_skeletons_as_modelled :
    ioLoops = [("receive", P_SOCKET_IO_CONDITION_POLLIN, EINTR, P_ERROR_IO_WOULD_BLOCK, -1),
               ("receiveFrom", P_SOCKET_IO_CONDITION_POLLIN, EINTR, P_ERROR_IO_WOULD_BLOCK, -1),
               ("send", P_SOCKET_IO_CONDITION_POLLOUT, EINTR, P_ERROR_IO_WOULD_BLOCK, -1),
               ("sendTo", P_SOCKET_IO_CONDITION_POLLOUT, EINTR, P_ERROR_IO_WOULD_BLOCK, -1),
               ("accept", P_SOCKET_IO_CONDITION_POLLIN, EINTR, P_ERROR_IO_WOULD_BLOCK, 0)] ∧
    pollLoopFacts = [-1, 1, EINTR, 1, 0] ∧
    connLoopFacts = [EINTR, P_ERROR_IO_WOULD_BLOCK, P_ERROR_IO_IN_PROGRESS, P_SOCKET_IO_CONDITION_POLLOUT] := by
  decide

/-- the kernel contract of `stream_integrity` / `datagram_exact` (`pipeRecvOk`: received bytes are *removed*;
    `pipeSendOk`: bytes are appended in order) is the contract of `recv` / `send` with exactly these flags:
    no `MSG_PEEK` / `MSG_OOB` / `MSG_WAITALL` …, and nothing but `MSG_NOSIGNAL` on the sending side -/
theorem data_call_flags_exact :
    recvFlags = 0 ∧ recvfromFlags = 0 ∧ sendFlags = MSG_NOSIGNAL ∧ sendtoFlags = MSG_NOSIGNAL := by
  decide

/-- "fails for a real reason": the only native code the library classifies as would-block (and therefore retries
    in blocking mode) is `EAGAIN` (= `EWOULDBLOCK`); every other failure of a data call is reported -/
theorem would_block_is_only_EAGAIN (e : Int) (h : ioFromSystem e = P_ERROR_IO_WOULD_BLOCK) : e = EAGAIN := by
  unfold ioFromSystem at h
  have key : ∀ (l : List (Int × Int)), (∀ p ∈ l, p.2 = P_ERROR_IO_WOULD_BLOCK → p.1 = EAGAIN) →
      (l.lookup e).getD errnoDefault = P_ERROR_IO_WOULD_BLOCK → e = EAGAIN := by
    intro l
    induction l with
    | nil => intro _ h; simp only [List.lookup, Option.getD_none] at h; exact absurd h (by decide)
    | cons p t ih =>
      intro hall h
      obtain ⟨a, b⟩ := p
      by_cases hea : e = a
      · subst hea
        simp only [List.lookup, beq_self_eq_true, Option.getD_some] at h
        exact hall (e, b) (by simp) h
      · have : (e == a) = false := by simpa using hea
        simp only [List.lookup, this] at h
        exact ih (fun p hp => hall p (by simp [hp])) h
  exact key errnoTable (by decide) h

/-- … and `EINTR` / `EAGAIN` themselves are classified as the model's loops assume -/
theorem retry_codes_classified :
    ioFromSystem EAGAIN = P_ERROR_IO_WOULD_BLOCK ∧ ioFromSystem EWOULDBLOCK = P_ERROR_IO_WOULD_BLOCK ∧
    ioFromSystem EINTR ≠ P_ERROR_IO_WOULD_BLOCK ∧ ioFromSystem EINPROGRESS = P_ERROR_IO_IN_PROGRESS := by
  decide

/-- the handshake-pending answers of `connect ()` — `EINPROGRESS`, and `EALREADY` when a connect that was interrupted
    by a handled signal is re-issued while the handshake still runs — are BOTH classified as "in progress", so the
    blocking connect waits for writability instead of reporting a failure (the retry after `EINTR` is otherwise not
    transparent); `EISCONN` is neither in-progress nor would-block.  (Round-6 seed C09-r6m1 moved `EALREADY` to the
    "already connected" class: the model follows the extracted table, so only this pin sees it.) -/
theorem connect_pending_codes :
    ioFromSystem EINPROGRESS = P_ERROR_IO_IN_PROGRESS ∧ ioFromSystem EALREADY = P_ERROR_IO_IN_PROGRESS ∧
    ioFromSystem EISCONN ≠ P_ERROR_IO_IN_PROGRESS ∧ ioFromSystem EISCONN ≠ P_ERROR_IO_WOULD_BLOCK := by
  decide

example : dataStep { blocking := true, poll := .poll 5 1 (-1) 1, call := .recv 5 0 4 0, failMsg := "x" } { sys := .recv, ret := .err ENOTCONN }
    = .fail { code := P_ERROR_IO_NOT_CONNECTED, native := ENOTCONN, msg := "x" } ENOTCONN := by decide


/-! ## exported for C19 (blocking calls are transparent to signal interruptions)

EINTR alone (no would-block): the same equalities, cited by the C19 check under these names. -/

theorem receive_eintr_transparent (s : Sock) (hb : s.blocking = true) (bufNull : Bool) (buflen : Nat) (script : Script) (e : Int) :
    seen (call s (.receive bufNull buflen) script e) =
    seen (call s (.receive bufNull buflen) (dropRetries .recv script e).1 (dropRetries .recv script e).2) :=
  eintr_eagain_transparent_receive s hb bufNull buflen script e

theorem receive_from_eintr_transparent (s : Sock) (hb : s.blocking = true) (w bn : Bool) (buflen : Nat) (script : Script) (e : Int) :
    seen (call s (.receiveFrom w bn buflen) script e) =
    seen (call s (.receiveFrom w bn buflen) (dropRetries .recvfrom script e).1 (dropRetries .recvfrom script e).2) :=
  eintr_eagain_transparent_receive_from s hb w bn buflen script e

theorem send_eintr_transparent (s : Sock) (hb : s.blocking = true) (buf : Option Bytes) (buflen : Nat) (script : Script) (e : Int) :
    seen (call s (.send buf buflen) script e) =
    seen (call s (.send buf buflen) (dropRetries .send script e).1 (dropRetries .send script e).2) :=
  eintr_eagain_transparent_send s hb buf buflen script e

theorem send_to_eintr_transparent (s : Sock) (hb : s.blocking = true) (a : Addr) (buf : Option Bytes) (buflen : Nat) (script : Script) (e : Int) :
    seen (call s (.sendTo a buf buflen) script e) =
    seen (call s (.sendTo a buf buflen) (dropRetries .sendto script e).1 (dropRetries .sendto script e).2) :=
  eintr_eagain_transparent_send_to s hb a buf buflen script e

theorem accept_eintr_transparent (s : Sock) (hb : s.blocking = true) (script : Script) (e : Int) :
    seen (call s .accept script e) =
    seen (call s .accept (dropRetries .accept script e).1 (dropRetries .accept script e).2) :=
  eintr_eagain_transparent_accept s hb script e

theorem connect_eintr_transparent (s : Sock) (addr : Addr) (script : Script) (e : Int) :
    seen (call s (.connect addr) script e) =
    seen (call s (.connect addr) (dropConnEintr script e).1 (dropConnEintr script e).2) :=
  eintr_eagain_transparent_connect s addr script e

/-- `poll_eintr` of C19 -/
theorem poll_eintr_transparent (s : Sock) (cond : Int) (script : Script) (e : Int) :
    seen (call s (.ioWait cond) script e) =
    seen (call s (.ioWait cond) (dropPollEintr script e).1 (dropPollEintr script e).2) :=
  eintr_eagain_transparent_io_condition_wait s cond script e

/-- non-blocking mode: `EINTR` of the data call is retried as well (only that; would-block is reported) -/
theorem nonblocking_eintr_transparent_loop (c : LoopCfg) (hb : c.blocking = false) (script : Script) (e : Int) :
    (ioLoop c .data script e).obs =
      (ioLoop c .data (dropDataEintr c.call.sys script e).1 (dropDataEintr c.call.sys script e).2).obs :=
  ioLoop_dropDataEintr c hb script e

end PV.Socket

import PV.Lemmas.SocketCalls
/-!
# C09 — Sockets deliver data intact despite retries

All theorems are about the model `PV.Model.Socket` of `psocket.c` (tied to the C code by the
scripted differential runs of `tools/props/c09.py`) and hold for **every** script of native results.
-/
namespace PV.Socket
open PV.Generated.Socket

/-! ## 1. EINTR / would-block transparency (blocking mode) -/

/-- `p_socket_receive`, blocking: the result on any script equals the result on the script with every
    `poll → EINTR` and every `poll → 1, recv → EINTR | EAGAIN` round removed. -/
theorem eintr_eagain_transparent_receive (s : Sock) (hb : s.blocking = true) (bufNull : Bool) (buflen : Nat)
    (script : Script) (e : Int) :
    seen (call s (.receive bufNull buflen) script e) =
    seen (call s (.receive bufNull buflen) (dropRetries .recv script e).1 (dropRetries .recv script e).2) := by
  rw [seen_call, seen_call]
  simp only [callM]
  rw [bind_pure_val, bind_pure_val]
  congr 1
  unfold receive
  cases bufNull with
  | true => rfl
  | false =>
    simp only [Bool.false_eq_true, if_false]
    cases hc : check s with
    | some pe => rfl
    | none =>
      simp only []
      exact bind_val_congr _ _ _ _ _ (loop_call_transparent s hb _ (recvCall s buflen) _ script e)

/-- `p_socket_receive_from`, blocking -/
theorem eintr_eagain_transparent_receive_from (s : Sock) (hb : s.blocking = true) (wantAddr bufNull : Bool) (buflen : Nat)
    (script : Script) (e : Int) :
    seen (call s (.receiveFrom wantAddr bufNull buflen) script e) =
    seen (call s (.receiveFrom wantAddr bufNull buflen) (dropRetries .recvfrom script e).1 (dropRetries .recvfrom script e).2) := by
  rw [seen_call, seen_call]
  simp only [callM]
  rw [bind_pure_val, bind_pure_val]
  congr 1
  unfold receiveFrom
  by_cases h0 : bufNull = true ∨ buflen = 0
  · simp only [h0, if_true]; rfl
  · simp only [h0, if_false]
    cases hc : check s with
    | some pe => rfl
    | none =>
      simp only []
      exact bind_val_congr _ _ _ _ _ (loop_call_transparent s hb _ (recvfromCall s buflen) _ script e)

/-- `p_socket_send`, blocking -/
theorem eintr_eagain_transparent_send (s : Sock) (hb : s.blocking = true) (buf : Option Bytes) (buflen : Nat)
    (script : Script) (e : Int) :
    seen (call s (.send buf buflen) script e) =
    seen (call s (.send buf buflen) (dropRetries .send script e).1 (dropRetries .send script e).2) := by
  rw [seen_call, seen_call]
  simp only [callM]
  rw [bind_pure_val, bind_pure_val]
  congr 1
  unfold send
  cases buf with
  | none => rfl
  | some b =>
    simp only []
    by_cases h0 : buflen = 0
    · simp only [h0, if_true]; rfl
    · simp only [h0, if_false]
      cases hc : check s with
      | some pe => rfl
      | none =>
        simp only []
        exact bind_val_congr _ _ _ _ _ (loop_call_transparent s hb _ (sendCall s b buflen) _ script e)

/-- `p_socket_send_to`, blocking -/
theorem eintr_eagain_transparent_send_to (s : Sock) (hb : s.blocking = true) (addr : Addr) (buf : Option Bytes) (buflen : Nat)
    (script : Script) (e : Int) :
    seen (call s (.sendTo addr buf buflen) script e) =
    seen (call s (.sendTo addr buf buflen) (dropRetries .sendto script e).1 (dropRetries .sendto script e).2) := by
  rw [seen_call, seen_call]
  simp only [callM]
  rw [bind_pure_val, bind_pure_val]
  congr 1
  unfold sendTo
  cases addr with
  | null => rfl
  | bad =>
    cases buf with
    | none => rfl
    | some b => simp only []; cases hc : check s <;> rfl
  | native sa =>
    cases buf with
    | none => rfl
    | some b =>
      simp only []
      cases hc : check s with
      | some pe => rfl
      | none =>
        simp only []
        exact bind_val_congr _ _ _ _ _ (loop_call_transparent s hb _ (sendtoCall s sa b buflen) _ script e)

/-- `p_socket_accept`, blocking (everything after the loop — FD_CLOEXEC, `p_socket_new_from_fd` — runs on
    the same remaining script with the same `errno`, hence gives the same socket object or the same error) -/
theorem eintr_eagain_transparent_accept (s : Sock) (hb : s.blocking = true) (script : Script) (e : Int) :
    seen (call s .accept script e) =
    seen (call s .accept (dropRetries .accept script e).1 (dropRetries .accept script e).2) := by
  rw [seen_call, seen_call]
  simp only [callM]
  rw [bind_pure_val, bind_pure_val]
  congr 1
  unfold accept
  cases hc : check s with
  | some pe => rfl
  | none =>
    simp only []
    exact bind_val_congr _ _ _ _ _ (loop_call_transparent s hb _ (.accept s.fd) _ script e)

/-- `p_socket_io_condition_wait` (any mode: it always waits): `poll → EINTR` results are invisible -/
theorem eintr_eagain_transparent_io_condition_wait (s : Sock) (cond : Int) (script : Script) (e : Int) :
    seen (call s (.ioWait cond) script e) =
    seen (call s (.ioWait cond) (dropPollEintr script e).1 (dropPollEintr script e).2) := by
  rw [seen_call, seen_call]
  simp only [callM]
  unfold ioWait
  cases hc : check s with
  | some pe => rfl
  | none =>
    simp only []
    apply bind_val_congr
    apply bind_full_congr
    apply liftLoop_full
    exact pollLoop_dropPollEintr _ script e

/-- after `dropRetries` nothing is left to retry: on the reduced script the loop of a blocking data
    call makes at most one `poll` and one data call (so the equalities above really compare with a
    retry-free run) -/
theorem dropRetries_leaves_no_retry (c : LoopCfg) (hb : c.blocking = true) (script : Script) (e : Int) :
    (ioLoop c .wait (dropRetries c.call.sys script e).1 (dropRetries c.call.sys script e).2).evs.length ≤ 2 :=
  ioLoop_dropRetries_once c hb script e

/-- …and `p_socket_io_condition_wait` on the reduced script makes at most one `poll` -/
theorem dropPollEintr_leaves_no_retry (call : Issued) (script : Script) (e : Int) :
    (pollLoop call (dropPollEintr script e).1 (dropPollEintr script e).2).evs.length ≤ 1 :=
  pollLoop_dropPollEintr_once call script e

/-! ### "in particular the outcome is never an error whose native code is EINTR / EAGAIN"

The full statement is **false of the code**: `p_socket_io_condition_wait` builds its time-out error
with `p_error_get_last_net ()`, i.e. with whatever `errno` holds when `poll` returned 0 — after an
interrupted `poll` that is EINTR.  Witness below (`timed_out_error_carries_stale_EINTR`).  What holds:
unless the native code is such a stale `errno` (`PErr.stale`), it is never EINTR, and a would-block
code is never that of the data call. -/

/- full-strength statement (false):
theorem never_eintr_eagain_receive (s : Sock) (hb : s.blocking = true) (hc : s.closed = false) (n : Nat) (script e r pe)
    (h : call s (.receive false n) script e = .ok r) (he : r.out.err = some pe) :
    pe.native ≠ EINTR ∧ pe.native ≠ EAGAIN -/

theorem never_eintr_eagain_receive_partial (s : Sock) (hb : s.blocking = true) (hc : s.closed = false) (n : Nat)
    (script : Script) (e : Int) (r : CallResult) (pe : PErr)
    (h : call s (.receive false n) script e = .ok r) (he : r.out.err = some pe) (hst : pe.stale = false) :
    pe.native ≠ EINTR ∧ (pe.native = EAGAIN → pe.msg = msgPollFailed) := by
  rw [receive_eq s hc] at h
  obtain ⟨hf, _⟩ := ofLoop_ok_err _ _ _ _ _ pe (by intro x; rfl) h he
  obtain ⟨h1, h2⟩ := ioLoop_fail_native _ _ _ _ _ hf hst
  exact ⟨h1, fun h => h2 (by simp [recvCfg, loopCfg, hb]) (by rw [h]; exact io_EAGAIN)⟩

theorem never_eintr_eagain_send_partial (s : Sock) (hb : s.blocking = true) (hc : s.closed = false) (b : Bytes) (n : Nat)
    (hn : n ≠ 0) (script : Script) (e : Int) (r : CallResult) (pe : PErr)
    (h : call s (.send (some b) n) script e = .ok r) (he : r.out.err = some pe) (hst : pe.stale = false) :
    pe.native ≠ EINTR ∧ (pe.native = EAGAIN → pe.msg = msgPollFailed) := by
  rw [send_eq s hc b n hn] at h
  obtain ⟨hf, _⟩ := ofLoop_ok_err _ _ _ _ _ pe (by intro x; rfl) h he
  obtain ⟨h1, h2⟩ := ioLoop_fail_native _ _ _ _ _ hf hst
  exact ⟨h1, fun h => h2 (by simp [sendCfg, loopCfg, hb]) (by rw [h]; exact io_EAGAIN)⟩

theorem never_eintr_eagain_send_to_partial (s : Sock) (hb : s.blocking = true) (hc : s.closed = false) (sa b : Bytes) (n : Nat)
    (script : Script) (e : Int) (r : CallResult) (pe : PErr)
    (h : call s (.sendTo (.native sa) (some b) n) script e = .ok r) (he : r.out.err = some pe) (hst : pe.stale = false) :
    pe.native ≠ EINTR ∧ (pe.native = EAGAIN → pe.msg = msgPollFailed) := by
  rw [sendTo_eq s hc] at h
  obtain ⟨hf, _⟩ := ofLoop_ok_err _ _ _ _ _ pe (by intro x; rfl) h he
  obtain ⟨h1, h2⟩ := ioLoop_fail_native _ _ _ _ _ hf hst
  exact ⟨h1, fun h => h2 (by simp [sendtoCfg, loopCfg, hb]) (by rw [h]; exact io_EAGAIN)⟩

theorem never_eintr_io_condition_wait_partial (s : Sock) (hc : s.closed = false) (cond : Int)
    (script : Script) (e : Int) (r : CallResult) (pe : PErr)
    (h : call s (.ioWait cond) script e = .ok r) (he : r.out.err = some pe) (hst : pe.stale = false) :
    pe.native ≠ EINTR := by
  rw [ioWait_eq s hc] at h
  obtain ⟨hf, _⟩ := ofLoop_ok_err _ _ _ _ _ pe (by intro x; rfl) h he
  exact pollLoop_fail_native _ _ _ _ hf hst

/-- the loop of *any* data call (this is what accept / receive_from share with the above) -/
theorem never_eintr_eagain_loop_partial (c : LoopCfg) (ph : Phase) (script : Script) (e : Int) (pe : PErr)
    (h : (ioLoop c ph script e).fin = .fail pe) (hst : pe.stale = false) :
    pe.native ≠ EINTR ∧ (c.blocking = true → pe.native = EAGAIN → pe.msg = msgPollFailed) := by
  obtain ⟨h1, h2⟩ := ioLoop_fail_native _ _ _ _ _ h hst
  exact ⟨h1, fun hb h => h2 hb (by rw [h]; exact io_EAGAIN)⟩

def demoSock : Sock := { family := AF_INET, protocol := 6, type := 1, fd := 5, listen_backlog := 5, timeout := 50, blocking := true }
def pollR (r : Ret) : Res := { sys := .poll, ret := r }
def recvR (r : Ret) (d : Bytes := []) : Res := { sys := .recv, ret := r, data := d }
def sendR (r : Ret) : Res := { sys := .send, ret := r }

/-- the witness against the full statement: `poll → EINTR, poll → 0` gives TIMED_OUT with native code EINTR -/
theorem timed_out_error_carries_stale_EINTR :
    (call demoSock (.receive false 8) [pollR (.err EINTR), pollR (.ok 0)]).toOption.map (·.out.err) =
      some (some { code := P_ERROR_IO_TIMED_OUT, native := EINTR, msg := msgTimedOut, stale := true }) := by
  decide

/-- non-vacuity of transparency: three kinds of retries, then 3 bytes -/
example :
    (call demoSock (.receive false 8)
        [pollR (.err EINTR), pollR (.ok 1), recvR (.err EAGAIN), pollR (.ok 1), recvR (.err EINTR), pollR (.ok 1), recvR (.ok 3) [1, 2, 3]]).toOption.map
      (fun r => (r.out.ret, r.out.data, r.tr.length)) = some (3, [1, 2, 3], 7)
    ∧ dropRetries .recv [pollR (.err EINTR), pollR (.ok 1), recvR (.err EAGAIN), pollR (.ok 1), recvR (.err EINTR), pollR (.ok 1), recvR (.ok 3) [1, 2, 3]] 0
      = ([pollR (.ok 1), recvR (.ok 3) [1, 2, 3]], EINTR) := by
  decide

/-! ## 2. `returns_kernel_count` -/

/-- `p_socket_send`: a successful call returns exactly the count of the one native `send` that
    succeeded, every `send` issued carries the caller's buffer (offset 0), `(socklen_t) buflen`, and the
    flags of T6, and no native call follows the successful one. -/
theorem returns_kernel_count_send (s : Sock) (hc : s.closed = false) (b : Bytes) (n : Nat) (hn : n ≠ 0)
    (script : Script) (e : Int) (r : CallResult)
    (h : call s (.send (some b) n) script e = .ok r) (hok : r.out.err = none) :
    ∃ k res pre, OneDataCall (.send s.fd 0 (toSocklen n) sendFlags (b.take (toSocklen n).toNat)) script r k res pre := by
  rw [send_eq s hc b n hn] at h
  exact one_data_call s (sendCfg s b n) (by simp [sendCfg, loopCfg, pollCall, sendCall])
    (by simp [sendCfg, loopCfg, pollCall, sendCall, Issued.sys]) _ _ (by intro x; rfl) (by intro x; rfl) script e r h hok

/-- `p_socket_receive`: the same, and the bytes handed to the caller are the kernel's, cut to the count and the length -/
theorem returns_kernel_count_receive (s : Sock) (hc : s.closed = false) (n : Nat)
    (script : Script) (e : Int) (r : CallResult)
    (h : call s (.receive false n) script e = .ok r) (hok : r.out.err = none) :
    ∃ k res pre, OneDataCall (.recv s.fd 0 (toSocklen n) recvFlags) script r k res pre ∧
      r.out.data = res.data.take (min k (toSocklen n).toNat) := by
  rw [receive_eq s hc] at h
  obtain ⟨k, res, pre, hone⟩ := one_data_call s (recvCfg s n) (by simp [recvCfg, loopCfg, pollCall, recvCall])
    (by simp [recvCfg, loopCfg, pollCall, recvCall, Issued.sys]) _ _ (by intro x; rfl) (by intro x; rfl) script e r h hok
  refine ⟨k, res, pre, hone, ?_⟩
  obtain ⟨res', hf, hr'⟩ := ofLoop_ok_noerr _ _ _ _ _ (by intro x; rfl) h hok
  have htr := hone.trace
  subst hr'
  obtain ⟨pre', h1, _⟩ := ioLoop_done (recvCfg s n) (by simp [recvCfg, loopCfg, pollCall, recvCall]) _ script e res' hf
  simp only at htr
  rw [h1] at htr
  have : res' = res := by
    have := congrArg List.getLast? htr
    simpa using this
  subst this
  simp [delivered, hone.count]

theorem returns_kernel_count_send_to (s : Sock) (hc : s.closed = false) (sa b : Bytes) (n : Nat)
    (script : Script) (e : Int) (r : CallResult)
    (h : call s (.sendTo (.native sa) (some b) n) script e = .ok r) (hok : r.out.err = none) :
    ∃ k res pre, OneDataCall (.sendto s.fd 0 (toSocklen n) sendtoFlags (b.take (toSocklen n).toNat) sa (Int.ofNat sa.length)) script r k res pre := by
  rw [sendTo_eq s hc] at h
  exact one_data_call s (sendtoCfg s sa b n) (by simp [sendtoCfg, loopCfg, pollCall, sendtoCall])
    (by simp [sendtoCfg, loopCfg, pollCall, sendtoCall, Issued.sys]) _ _ (by intro x; rfl) (by intro x; rfl) script e r h hok

/-- "the caller's length passed unchanged" holds below 4 GiB: `psize` is narrowed with `(socklen_t) buflen` -/
theorem length_unchanged_partial (n : Nat) (h : n < 2 ^ 32) : toSocklen n = Int.ofNat n := toSocklen_eq n h

/-- …and not above: a 4 GiB + 1 byte buffer is offered to the kernel as 1 byte -/
theorem length_truncated_witness : toSocklen (2 ^ 32 + 1) = 1 := by decide

example : ∃ r, call demoSock (.send (some [9, 8, 7]) 3) [pollR (.ok 1), sendR (.err EINTR), pollR (.ok 1), sendR (.ok 2), sendR (.ok 1)] = .ok r
    ∧ r.out.ret = 2 ∧ r.rest = [sendR (.ok 1)] ∧ r.out.err = none := by
  refine ⟨_, rfl, ?_, ?_, ?_⟩ <;> decide

end PV.Socket

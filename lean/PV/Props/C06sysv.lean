import PV.Lemmas.IPCSysV
import PV.Lemmas.IPCSysVInv
import PV.Lemmas.IPCSysVNew
/-!
# C06, System V variant — named semaphore (`psemaphore-sysv.c` + key files of `pipc.c` over `PV.SysV.OS`)

Statements about the model `PV.Model.IPCSysV` instantiated with the facts of `PV.Generated.IPCSysV`.
-/
namespace PV.SysV.C06
open PV.SysV PV.Generated.IPCSysV

/-! ## 0. the extracted facts are the ones the model (and the trusted contract) is written for -/

theorem source_as_modelled :
    hasFlag keyFileOpenFlags O_CREAT = true ∧ hasFlag keyFileOpenFlags O_EXCL = true ∧ keyFileExistsErrno = EEXIST ∧
    hasFlag semgetExclFlags IPC_CREAT = true ∧ hasFlag semgetExclFlags IPC_EXCL = true ∧
    hasFlag semgetPlainFlags IPC_CREAT = false ∧ semgetExistsErrno = EEXIST ∧ semgetExclNsems = 1 ∧ semgetPlainNsems = 1 ∧
    semSetvalCmd = SETVAL ∧ semRmidCmd = IPC_RMID ∧ SETVAL ≠ IPC_RMID ∧
    acquireBuf = (0, -1, SEM_UNDO) ∧ releaseBuf = (0, 1, SEM_UNDO) ∧
    acquireRetryErrno = EINTR ∧ releaseRetryErrno = EINTR ∧
    acquireRecreateErrnos = [EIDRM, EINVAL] ∧ releaseRecreateErrnos = [EIDRM, EINVAL] ∧
    sites_pp_semaphore_create_handle = ["p_ipc_unix_create_key_file", "pp_semaphore_clean_handle", "p_ipc_unix_get_ftok_key",
      "pp_semaphore_clean_handle", "semget", "semget", "pp_semaphore_clean_handle", "semctl", "pp_semaphore_clean_handle"] ∧
    sites_pp_semaphore_clean_handle = ["semctl", "unlink"] ∧
    sites_p_semaphore_acquire = ["semop", "pp_semaphore_clean_handle", "pp_semaphore_create_handle", "semop"] ∧
    sites_p_semaphore_release = ["semop", "pp_semaphore_clean_handle", "pp_semaphore_create_handle"] ∧
    sites_p_ipc_unix_create_key_file = ["open"] ∧ sites_p_ipc_unix_get_ftok_key = ["stat"] := by decide

/-! ## 1. one set per name -/

/-- All handles of one name opened since the name's last creation refer to the same live semaphore set — for EVERY
    schedule (any interleaving of the system calls of any calls of any threads of any processes, SIGKILLs, EINTR) —
    under the two explicit hypotheses: (a) inode numbers are not reused (`Inv.bound.noreuse : g.os.reuse = false`, the
    oracle of finding F15), (b) no owner free of the name in between (`QuietRun f g as`: no call is at the IPC_RMID /
    unlink of a clean-up of `f`).  `Inv f i id`: key file `f` has inode `i`, whose key names the live set `id`, nothing
    else refers to `i` / `id`; every live struct of `f` (PSemaphore, or the lock inside a PShm) has `sem_hdl = id`, every
    struct of another name has a different id; every machine in flight (a call between two of its system calls) is
    consistent with that.  `f` is a semaphore key file (`.sem n` or `.lock n`). -/
theorem one_set_per_name (f : KeyFile) (i : Ino) (id : SemId) (hfs : ∀ n, f ≠ .shm n) (g : G) (as : List Action)
    (h0 : Inv f i id g) (hq : QuietRun f g as) : Inv f i id (execAll g as) :=
  inv_execAll f i id hfs as g h0 hq

/-- … hence any two live handles of the name (in any processes) work on one live set: their `semop`s are the same
    system call, and the key file still names that set -/
theorem same_set (f : KeyFile) (i : Ino) (id : SemId) (g : G) (h1 h2 : Hid) (p1 p2 : Pid) (x1 x2 : PSem)
    (hi : Inv f i id g) (e1 : g.hs h1 = some (p1, .sem x1)) (e2 : g.hs h2 = some (p2, .sem x2)) (f1 : x1.file = f) (f2 : x2.file = f) :
    x1.hdl = some id ∧ x2.hdl = some id ∧ (g.os.sems id).alive = true ∧
    (g.os.files f).bind (fun j => g.os.semKeys (ftokOf j)) = some id := by
  have a1 := hi.hs h1 p1 _ e1
  have a2 := hi.hs h2 p2 _ e2
  simp only [Handle.inv, PSem.inv, f1, f2, if_true] at a1 a2
  exact ⟨a1, a2, hi.bound.alive, by simp [hi.bound.file, hi.bound.key]⟩

/-- frame: a step of a call working on ANOTHER name (its current key file is not `f`) leaves the set of `f` — value,
    SEM_UNDO adjustments, liveness — untouched, and (by `one_set_per_name`) the binding as well -/
theorem other_names_do_not_touch_the_set (f : KeyFile) (i : Ino) (id : SemId) (hfs : ∀ n, f ≠ .shm n) (g : G) (t : Tid) (intr : Bool)
    (c : Call) (hi : Inv f i id g) (hq : Quiet f g) (hc : g.calls t = some c) (hf : c.file ≠ f) :
    (g.step t intr).os.sems id = g.os.sems id :=
  step_frame f i id hfs g t intr c hi hq hc hf

/-! ## 2. acquire / release on a live set -/

/-- `p_semaphore_acquire` on a handle whose set is alive returns exactly at a `semop` that found a unit: that step
    consumes exactly one unit and records it in the caller's SEM_UNDO adjustment; a step that does not return
    changes nothing -/
theorem acquire_consumes (g : G) (t : Tid) (hid : Hid) (h : PSem) (rc : Bool) (i : SemId)
    (hc : g.calls t = some (.semOp hid { api := .acquire, h := h, pc := .op, recreated := rc }))
    (hi : h.hdl = some i) (hl : (g.os.sems i).alive = true) :
    ((g.step t false).calls t = none ↔ 0 < (g.os.sems i).value) ∧
    ((g.step t false).calls t = none →
        (g.os.sems i).value = ((g.step t false).os.sems i).value + 1 ∧ (g.step t false).ret t = some .unit ∧
        ((g.step t false).os.sems i).adj (g.pidOf t) = (g.os.sems i).adj (g.pidOf t) + 1) ∧
    ((g.step t false).calls t ≠ none → (g.step t false).os = g.os) := by
  by_cases hv : (g.os.sems i).value = 0 <;>
    simp [G.step, hc, Call.next, Call.after, Call.name, SemSt.next, SemSt.after, SemSt.buf, sysStep, Sys.interruptible, semopF,
      semAlive, hi, hl, hv, acquireBuf, hasFlag, SEM_UNDO, G.setCall, G.setRet, G.setHandle, OS.setSem, retOf]
  omega

/-- an acquire that is not interrupted returns iff a unit is available -/
theorem acquire_enabled_iff_positive (g : G) (t : Tid) (hid : Hid) (h : PSem) (rc : Bool) (i : SemId)
    (hc : g.calls t = some (.semOp hid { api := .acquire, h := h, pc := .op, recreated := rc }))
    (hi : h.hdl = some i) (hl : (g.os.sems i).alive = true) :
    (g.step t false).calls t = none ↔ 0 < (g.os.sems i).value :=
  (acquire_consumes g t hid h rc i hc hi hl).1

/- FULL STATEMENT (false of the code, finding F17 — see `release_adds_false`):
   theorem release_adds : every `p_semaphore_release` through a handle obtained from `p_semaphore_new` returns TRUE
   at once and adds exactly one unit to the counter of the handle's name.
   Excluded region of the partial theorem: the handle's set was removed (IPC_RMID by an owner's free) since the
   handle was opened, i.e. `(g.os.sems i).alive = false`. -/

/-- `p_semaphore_release` on a handle whose set is alive (and not at SEMVMX) is one `semop`: it returns TRUE at once
    and adds exactly one unit (taken back from the caller's SEM_UNDO adjustment) -/
theorem release_adds_partial (g : G) (t : Tid) (hid : Hid) (h : PSem) (i : SemId)
    (hc : g.calls t = some (.semOp hid { api := .release, h := h, pc := .op }))
    (hi : h.hdl = some i) (hl : (g.os.sems i).alive = true) (hm : (g.os.sems i).value < SEMVMX) :
    (g.step t false).calls t = none ∧ (g.step t false).ret t = some .unit ∧
    ((g.step t false).os.sems i).value = (g.os.sems i).value + 1 ∧
    ((g.step t false).os.sems i).adj (g.pidOf t) = (g.os.sems i).adj (g.pidOf t) - 1 ∧
    (g.step t false).hs hid = some (g.pidOf t, .sem h) := by
  have : ¬ ((g.os.sems i).value + 1 > SEMVMX) := by omega
  simp [G.step, hc, Call.next, Call.after, SemSt.next, SemSt.after, SemSt.buf, sysStep, Sys.interruptible, semopF,
    semAlive, hi, hl, releaseBuf, hasFlag, SEM_UNDO, G.setCall, G.setRet, G.setHandle, OS.setSem, retOf, this]

/-- the recorded history of F17: `0 new-sem 0 s0 2 OPEN; 1 new-sem 1 s0 5 OPEN; 0 free 0; 1 rel 1` -/
def f17Before : G :=
  (((G.init id).call 0 (.newSem 0 0 2 .open)).call 1 (.newSem 1 0 5 .open)).call 0 (.free 0)

def f17 : G := f17Before.call 1 (.rel 1)

set_option maxRecDepth 100000 in
/-- negation of `release_adds` on the recorded witness: both handles were opened on one set (id 0, value 2); after
    the creator's free the set is gone but the key file stays; the release through the remaining handle returns
    TRUE, makes a NEW set (id 1) whose value is the handle's own initial value 5 — not 2 + 1 — and the handle now
    owns set and key file -/
theorem release_adds_false :
    ((G.init id).call 0 (.newSem 0 0 2 .open)).hs 0 = some (0, .sem ⟨false, true, some 1, .sem 0, some 0, .open, 2⟩) ∧
    (((G.init id).call 0 (.newSem 0 0 2 .open)).call 1 (.newSem 1 0 5 .open)).hs 1 = some (1, .sem ⟨false, false, some 1, .sem 0, some 0, .open, 5⟩) ∧
    (f17Before.os.sems 0).alive = false ∧ f17Before.os.files (.sem 0) = some 1 ∧ f17Before.os.semKeys 1 = none ∧
    f17.ret 1 = some .unit ∧ f17.os.semKeys 1 = some 1 ∧ (f17.os.sems 1).value = 5 ∧
    f17.hs 1 = some (1, .sem ⟨true, true, some 1, .sem 0, some 1, .open, 5⟩) := by decide

/-! ## 2b. EINTR scripts of any length are erased -/

/-- any number of EINTR results of `semop` at any of its call sites (first loop, the loop after "trying to recreate")
    is invisible: state, handles and result of an acquire are those of the uninterrupted call -/
theorem acquire_eintr_erased (g : G) (t : Tid) (h : Hid) (script : List Nat) :
    (g.call t (.acq h) script).Same (g.call t (.acq h) []) :=
  eintr_transparent g t (.acq h) script

theorem release_eintr_erased (g : G) (t : Tid) (h : Hid) (script : List Nat) :
    (g.call t (.rel h) script).Same (g.call t (.rel h) []) :=
  eintr_transparent g t (.rel h) script

/-! ## 3–4. OPEN ignores the initial value, CREATE sets exactly the given value — for every value and every state
   satisfying the invariant of §1 (per system call of the `p_semaphore_new` in flight) -/

/-- what one step of a `p_semaphore_new` in flight leads to -/
def NewOutcome (f : KeyFile) (id : SemId) (m : Mode) (g' : G) (t : Tid) (hid : Hid) (p : Pid) (init : Nat) : Prop :=
  (∃ s', g'.calls t = some (.semNew hid s') ∧ s'.h.file = f ∧ s'.h.init = init ∧
      (s'.opening m ∨ (m = .create ∧ s'.pc = .cSetval ∧ s'.api = .new ∧ s'.h.hdl = some id))) ∨
  (m = .open ∧ ∃ h, g'.calls t = none ∧ g'.hs hid = some (p, .sem h) ∧ g'.ret t = some (.sem h) ∧ h.hdl = some id ∧ h.file = f)

theorem new_step (f : KeyFile) (i : Ino) (id : SemId) (m : Mode) (g : G) (t : Tid) (intr : Bool) (hid : Hid) (s : SemSt)
    (hi : Inv f i id g) (hc : g.calls t = some (.semNew hid s)) (hf : s.h.file = f) (ho : s.opening m) :
    (g.step t intr).os.sems id = g.os.sems id ∧ NewOutcome f id m (g.step t intr) t hid (g.pidOf t) s.h.init := by
  have hs := new_step_value (g.pidOf t) intr 0 s g.os f i id m hi.bound hf (hi.calls t _ hc) ho
  refine ⟨by rw [step_os g t intr _ hc]; exact hs.1, ?_⟩
  have h2 := hs.2
  cases hr : s.after (sysStep (g.pidOf t) intr s.next g.os 0).2 with
  | cont s' =>
    rw [hr] at h2
    left
    refine ⟨s', ?_, h2.1, h2.2.1, h2.2.2.2⟩
    simp [G.step, hc, Call.next, Call.after, Call.name, hr, G.setCall]
  | done x =>
    obtain ⟨h, e⟩ := x
    rw [hr] at h2
    obtain ⟨hm, he, hh, hfile⟩ := h2
    subst he
    right
    refine ⟨hm, h, ?_, ?_, ?_, hh, hfile⟩ <;>
      simp [G.step, hc, Call.next, Call.after, Call.name, hr, G.setCall, G.setRet, G.setHandle]



/-- `p_semaphore_new (name_n, init, mode)` started by an idle thread of a live process on a free slot is a machine in
    its `opening` phase on key file `.sem n` -/
theorem start_new_opening (g : G) (t : Tid) (hid : Hid) (n init : Nat) (m : Mode)
    (hal : (g.os.procs (g.pidOf t)).alive = true) (hidle : g.calls t = none) (hh : g.hs hid = none) :
    ∃ s, (g.start t (.newSem hid n init m)).calls t = some (.semNew hid s) ∧ s.h.file = .sem n ∧ s.h.init = init ∧ s.opening m ∧
      (g.start t (.newSem hid n init m)).os = g.os := by
  refine ⟨{ api := .new, h := { file := .sem n, hdl := some 0, mode := m, init := init }, pc := .cOpen }, ?_, rfl, rfl, ⟨rfl, rfl, Or.inl rfl⟩, ?_⟩ <;>
    simp [G.start, hal, hidle, hh, G.setCall]

/-- ∀-version: OPEN on an existing name ignores the initial value.  In ANY state satisfying the invariant (name bound to
    the live set `id`), every system call of an OPEN-mode `p_semaphore_new` of that name in flight — for any initial value
    `s.h.init`, interrupted or not, whatever the other threads and processes did before — leaves the set (value, SEM_UNDO
    adjustments) exactly as it was; the call either goes on in the same phase or returns a struct with `sem_hdl = id`. -/
theorem open_ignores_init_on_existing (f : KeyFile) (i : Ino) (id : SemId) (g : G) (t : Tid) (intr : Bool) (hid : Hid) (s : SemSt)
    (hi : Inv f i id g) (hc : g.calls t = some (.semNew hid s)) (hf : s.h.file = f) (ho : s.opening .open) :
    (g.step t intr).os.sems id = g.os.sems id ∧ NewOutcome f id .open (g.step t intr) t hid (g.pidOf t) s.h.init :=
  new_step f i id .open g t intr hid s hi hc hf ho

/-- ∀-version: CREATE on an existing name sets exactly the given value.  (a) Before its SETVAL a CREATE-mode
    `p_semaphore_new` of the bound name leaves the set alone and arrives at the SETVAL with `sem_hdl = id` … -/
theorem create_reaches_setval (f : KeyFile) (i : Ino) (id : SemId) (g : G) (t : Tid) (intr : Bool) (hid : Hid) (s : SemSt)
    (hi : Inv f i id g) (hc : g.calls t = some (.semNew hid s)) (hf : s.h.file = f) (ho : s.opening .create) :
    (g.step t intr).os.sems id = g.os.sems id ∧ NewOutcome f id .create (g.step t intr) t hid (g.pidOf t) s.h.init :=
  new_step f i id .create g t intr hid s hi hc hf ho

/-- … (b) and the SETVAL step gives the set EXACTLY the value handed to `p_semaphore_new` (any value up to SEMVMX), on the
    same set `id` that every other handle of the name uses, clears the SEM_UNDO adjustments, and returns the struct. -/
theorem create_sets_value (f : KeyFile) (i : Ino) (id : SemId) (g : G) (t : Tid) (intr : Bool) (hid : Hid) (s : SemSt)
    (hi : Inv f i id g) (hc : g.calls t = some (.semNew hid s)) (hpc : s.pc = .cSetval) (ha : s.api = .new)
    (hh : s.h.hdl = some id) (hv : s.h.init ≤ SEMVMX) :
    ((g.step t intr).os.sems id).value = s.h.init ∧ ((g.step t intr).os.sems id).alive = true ∧
    (∀ q, ((g.step t intr).os.sems id).adj q = 0) ∧
    (g.step t intr).calls t = none ∧ (g.step t intr).hs hid = some (g.pidOf t, .sem s.h) ∧ (g.step t intr).ret t = some (.sem s.h) := by
  have hs := setval_step (g.pidOf t) intr 0 s g.os f i id hi.bound hpc ha hh hv
  rw [step_os g t intr _ hc]
  refine ⟨hs.1, hs.2.1, hs.2.2.1, ?_, ?_, ?_⟩ <;>
    simp [G.step, hc, Call.next, Call.after, Call.name, hs.2.2.2, G.setCall, G.setRet, G.setHandle]


/-! ## 3–6. OPEN / CREATE / owner free / crash recovery — ENUMERATED FINITE SCOPE (evaluation of the executable model,
   `decide`), clearly not ∀-statements: initial values 0..3, fresh machine (with and without inode reuse), one name -/

/-- a process that creates name 0 with value `v` -/
def created (reuse : Bool) (v : Nat) (m : Mode) : G := (G.init id reuse).call 0 (.newSem 0 0 v m)

/-- value of the set the key file of name `n` currently names -/
def valueOf (g : G) (n : Nat) : Option Nat :=
  (g.os.files (.sem n)).bind fun i => (g.os.semKeys (ftokOf i)).map fun id => (g.os.sems id).value

def hdlOf (g : G) (h : Hid) : Option SemId :=
  match g.hs h with
  | some (_, .sem x) => x.hdl
  | _ => none

set_option maxRecDepth 100000 in
/-- (scope v, w ≤ 3, both creation modes, both inode policies) OPEN on an existing name ignores its initial value and
    joins the creator's set; the OS state is unchanged -/
theorem open_ignores_init_on_existing_scope :
    (List.all [false, true] fun r => List.all [Mode.open, Mode.create] fun m => List.all (List.range 4) fun v => List.all (List.range 4) fun w =>
      let g1 := created r v m
      let g2 := g1.call 1 (.newSem 1 0 w .open)
      decide (valueOf g2 0 = some v) && decide (hdlOf g2 1 = hdlOf g1 0) && decide ((hdlOf g1 0).isSome) && decide (g2.ret 1 = (g2.hs 1).map fun x => match x.2 with | .sem y => Ret.sem y | .shm y => Ret.shm y)) = true := by
  decide

set_option maxRecDepth 100000 in
/-- (same scope) CREATE on an existing name sets exactly the given value on the SAME set (System V: the set is kept,
    handles opened before see the new value), and a later OPEN joins it without changing the value -/
theorem create_sets_value_scope :
    (List.all [false, true] fun r => List.all (List.range 4) fun v => List.all (List.range 4) fun w =>
      let g1 := created r v .open
      let g2 := g1.call 1 (.newSem 1 0 w .create)
      let g3 := g2.call 2 (.newSem 2 0 (v + w + 1) .open)
      decide (valueOf g2 0 = some w) && decide (hdlOf g2 1 = hdlOf g1 0) && decide (valueOf g3 0 = some w) && decide (hdlOf g3 2 = hdlOf g1 0)) = true := by
  decide

set_option maxRecDepth 100000 in
/-- (same scope) after `take_ownership; free` by the only handle the set is gone (the key file stays when the creator made it
    itself: `file_created = (built == 1)`); the next
    open (any mode) starts a fresh set with exactly its value -/
theorem owner_free_fresh_scope :
    (List.all [false, true] fun r => List.all [Mode.open, Mode.create] fun m => List.all (List.range 4) fun v => List.all (List.range 4) fun w =>
      let g1 := created r v .open
      let g2 := (g1.call 0 (.own 0)).call 0 (.free 0)
      let g3 := g2.call 1 (.newSem 1 0 w m)
      decide (valueOf g2 0 = none) && decide ((g2.os.sems 0).alive = false) &&
      decide (valueOf g3 0 = some w) && decide (hdlOf g3 1 = some 1)) = true := by
  decide

/-- the state after thread `tc` has made `j` system calls of `op` and its process is SIGKILLed -/
def crashAt (g : G) (tc : Tid) (op : Op) (j : Nat) : G :=
  ((List.replicate j (Action.step tc false)).foldl exec (g.start tc op)).kill (g.pidOf tc)

/-- the documented recovery: open, take ownership, free, create with value `v` (thread / process 2) -/
def recover (g : G) (v : Nat) : G :=
  (((g.call 2 (.newSem 8 0 0 .open)).call 2 (.own 8)).call 2 (.free 8)).call 2 (.newSem 9 0 v .create)

/-- clean: name 0 is bound to a live set of value `v`, a later OPEN joins it, and no set other than that one is alive
    among the ids ever handed out -/
def cleanAfter (g : G) (v : Nat) : Bool :=
  decide (valueOf g 0 = some v) &&
  (let g' := g.call 3 (.newSem 10 0 7 .open)
   decide (hdlOf g' 10 = hdlOf g 9) && decide (valueOf g' 0 = some v)) &&
  decide (((List.range g.os.nextSem).filter fun i => (g.os.sems i).alive).length = 1)

set_option maxRecDepth 100000 in
/-- (scope: crash at EVERY step index j ≤ 9 of `p_semaphore_new` OPEN / CREATE on a fresh and on an existing name, of the
    creator's free, of an owner's free and of a release / acquire that re-creates the set; both inode policies) the
    documented recovery ends in a clean state -/
theorem crash_recoverable_scope :
    (List.all [false, true] fun r => List.all (List.range 10) fun j =>
      let fresh := G.init id r
      let held := ((G.init id r).call 1 (.newSem 1 0 2 .open)).call 1 (.acq 1)
      let two := ((G.init id r).call 0 (.newSem 0 0 1 .open)).call 1 (.newSem 1 0 1 .open)
      let gone := two.call 0 (.free 0)
      cleanAfter (recover (crashAt fresh 0 (.newSem 0 0 3 .open) j) 2) 2 &&
      cleanAfter (recover (crashAt fresh 0 (.newSem 0 0 3 .create) j) 2) 2 &&
      cleanAfter (recover (crashAt held 0 (.newSem 0 0 3 .open) j) 2) 2 &&
      cleanAfter (recover (crashAt held 0 (.newSem 0 0 3 .create) j) 2) 2 &&
      cleanAfter (recover (crashAt two 0 (.free 0) j) 2) 2 &&
      cleanAfter (recover (crashAt (two.call 1 (.own 1)) 1 (.free 1) j) 2) 2 &&
      cleanAfter (recover (crashAt gone 1 (.rel 1) j) 2) 2 &&
      cleanAfter (recover (crashAt gone 1 (.acq 1) j) 2) 2) = true := by
  decide

/-! ## non-vacuity -/

/-- the state after `0 new-sem 0 s0 2 OPEN; 1 new-sem 1 s0 5 OPEN`, written out: key file s0 = inode 1, key 1 = set 0
    (value 2, alive), the creator's struct and a follower's struct -/
def boundDemo : G :=
  { os := { OS.init with files := fun g => if g = .sem 0 then some 1 else none, nextIno := 2,
                         semKeys := fun k => if k = 1 then some 0 else none,
                         sems := fun j => if j = 0 then { value := 2, alive := true } else {}, nextSem := 1 },
    pidOf := id,
    hs := fun h => if h = 0 then some (0, .sem ⟨false, true, some 1, .sem 0, some 0, .open, 2⟩)
                   else if h = 1 then some (1, .sem ⟨false, false, some 1, .sem 0, some 0, .open, 5⟩) else none,
    calls := fun _ => none, ret := fun _ => none, log := [] }

set_option maxRecDepth 100000 in
/-- … and it is what the model computes (on everything the invariant looks at, at the points that are not `none`) -/
example :
    let g := ((G.init id).call 0 (.newSem 0 0 2 .open)).call 1 (.newSem 1 0 5 .open)
    g.os.files (.sem 0) = boundDemo.os.files (.sem 0) ∧ g.os.semKeys 1 = boundDemo.os.semKeys 1 ∧
    (g.os.sems 0).alive = (boundDemo.os.sems 0).alive ∧ (g.os.sems 0).value = (boundDemo.os.sems 0).value ∧
    g.os.nextSem = boundDemo.os.nextSem ∧ g.os.nextIno = boundDemo.os.nextIno ∧ g.os.reuse = boundDemo.os.reuse ∧
    g.hs 0 = boundDemo.hs 0 ∧ g.hs 1 = boundDemo.hs 1 ∧ g.calls 0 = none ∧ g.calls 1 = none := by decide

/-- the hypotheses of `one_set_per_name` / `same_set` / `other_names_do_not_touch_the_set` are satisfiable: the invariant
    holds in `boundDemo`, and a schedule in which a third process is SIGKILLed is quiet -/
example : Inv (.sem 0) 1 0 boundDemo ∧ QuietRun (.sem 0) boundDemo [.kill 2] ∧ (∀ n, KeyFile.sem 0 ≠ .shm n) := by
  refine ⟨⟨⟨rfl, rfl, rfl, by decide, ?_, ?_, by decide, rfl⟩, ?_, ?_⟩, ⟨?_, trivial⟩, by intro n e; cases e⟩
  · intro k hk
    simp only [boundDemo] at hk
    split at hk
    · assumption
    · cases hk
  · intro g hg
    simp only [boundDemo] at hg
    split at hg
    · assumption
    · cases hg
  · intro h p x hx
    simp only [boundDemo] at hx
    split at hx
    · simp only [Option.some.injEq, Prod.mk.injEq] at hx; rw [← hx.2]; simp [Handle.inv, PSem.inv]
    · split at hx
      · simp only [Option.some.injEq, Prod.mk.injEq] at hx; rw [← hx.2]; simp [Handle.inv, PSem.inv]
      · cases hx
  · intro t c hc; cases hc
  · intro t c hc; cases hc


set_option maxRecDepth 100000 in
/-- the hypotheses of `acquire_consumes` / `release_adds_partial` are met by the model's own states: a release in flight
    on a live set below SEMVMX -/
example :
    let g := ((G.init id).call 0 (.newSem 0 0 2 .open)).start 0 (.rel 0)
    g.calls 0 = some (.semOp 0 { api := .release, h := ⟨false, true, some 1, .sem 0, some 0, .open, 2⟩, pc := .op }) ∧
    (g.os.sems 0).alive = true ∧ (g.os.sems 0).value < SEMVMX := by decide

end PV.SysV.C06

import PV.Model.HashX.Dispatch
import PV.Spec.HashX
import PV.Lemmas.HashX.Stream
import PV.Lemmas.HashX.Sha3
import PV.Lemmas.HashX.Gost
import PV.Lemmas.HashX.Dispatch
import PV.Lemmas.HashX.SpecStd
/-!
# C11 (SHA-3 and GOST R 34.11-94 part) — digest = standard digest of the concatenation

Model: `PV.Model.HashX.*` (transliteration of `pcryptohash-sha3.c`, `pcryptohash-gost3411.c` — with
the two GOST repairs applied, see the end of this file — and of the dispatcher `pcryptohash.c`).
Spec: `PV.Spec.HashX` (FIPS 202 sponge; GOST iteration with length and checksum finalisation).
Constants (rates, digest lengths, padding bytes) are the ones extracted from the current C source
(`PV.Generated.HashX`); every theorem below is re-checked against them on every run.

Hypotheses on chunk sizes, and why they are there:
* SHA-3: each chunk `< 2^63` bytes (no C object is larger; `(psize) ctx->len + len` must not wrap).
  No bound on the total length (SHA-3 keeps no length counter).
* GOST: each chunk `< 2^61` bytes (`len256[1] = (puint32) (len >> 29)` holds the bit count of one
  chunk in two words).  No bound on the total: the bit counter is `mod 2^256` in the code and in the
  standard alike.  Beyond `2^61` the statement is false (`gost_len_words_beyond_2_61` below).
-/
namespace PV.HashX.C11x
open PV.HashX PV.Generated.HashX

/-! ## (a) chunking -/

/-- **SHA3-224**: for every splitting of the input into `update` calls (empty chunks allowed) -/
theorem chunking_sha3_224 (chunks : List Bytes) (hc : ∀ c ∈ chunks, c.length < 2 ^ 63) :
    Sha3.digest (Sha3.finish (chunks.foldl Sha3.update (Sha3.new sha3Rate224))) hashLen_sha3_224
      = Spec.sha3_224 chunks.flatten :=
  Sha3.chunking (R := sha3Rate224) (d := hashLen_sha3_224) (by decide) (by decide) (by decide) (by decide) chunks hc

/-- **SHA3-256** -/
theorem chunking_sha3_256 (chunks : List Bytes) (hc : ∀ c ∈ chunks, c.length < 2 ^ 63) :
    Sha3.digest (Sha3.finish (chunks.foldl Sha3.update (Sha3.new sha3Rate256))) hashLen_sha3_256
      = Spec.sha3_256 chunks.flatten :=
  Sha3.chunking (R := sha3Rate256) (d := hashLen_sha3_256) (by decide) (by decide) (by decide) (by decide) chunks hc

/-- **SHA3-384** -/
theorem chunking_sha3_384 (chunks : List Bytes) (hc : ∀ c ∈ chunks, c.length < 2 ^ 63) :
    Sha3.digest (Sha3.finish (chunks.foldl Sha3.update (Sha3.new sha3Rate384))) hashLen_sha3_384
      = Spec.sha3_384 chunks.flatten :=
  Sha3.chunking (R := sha3Rate384) (d := hashLen_sha3_384) (by decide) (by decide) (by decide) (by decide) chunks hc

/-- **SHA3-512** -/
theorem chunking_sha3_512 (chunks : List Bytes) (hc : ∀ c ∈ chunks, c.length < 2 ^ 63) :
    Sha3.digest (Sha3.finish (chunks.foldl Sha3.update (Sha3.new sha3Rate512))) hashLen_sha3_512
      = Spec.sha3_512 chunks.flatten :=
  Sha3.chunking (R := sha3Rate512) (d := hashLen_sha3_512) (by decide) (by decide) (by decide) (by decide) chunks hc

/-- **GOST R 34.11-94**: for every splitting, every total length; includes the 256-bit bit counter
    and the 256-bit checksum (both proved to be exact additions `mod 2^256`) -/
theorem chunking_gost (chunks : List Bytes) (hc : ∀ c ∈ chunks, c.length < 2 ^ 61) :
    Gost.digest (Gost.finish (chunks.foldl Gost.update Gost.init)) = Spec.gost chunks.flatten :=
  Gost.chunking chunks hc

/-- the generic lemma behind (a): **buffered absorb = absorb of the concatenation**, for any block
    size, block function and buffer -/
theorem buffered_absorb {σ : Type} {B : Nat} (hB : 0 < B) {p : σ → Bytes → σ} {init : σ} {c : Ctx σ} {m : Bytes}
    (inv : Inv B p init c m) (data : Bytes) :
    Inv B p init (feed B p (m.length % B) (decide (m.length % B ≠ 0 ∧ B - m.length % B ≤ data.length)) c data)
      (m ++ data) :=
  (feed_inv hB inv data _ rfl _ rfl).1

/-- the 256-bit adder of the GOST code is addition modulo `2^256` (all operands) -/
theorem gost_sum256_exact (a b : Gost.W8) : (Gost.sum256 a b).toNat = (a.toNat + b.toNat) % 2 ^ 256 :=
  Gost.sum256_toNat a b

/-- `updz N` of the driver feeds the model's `update` with `N` zero bytes -/
theorem updateZeros_sha3 (c : Sha3.Ctx) (n : Nat) : Sha3.updateZeros c n = Sha3.update c (List.replicate n 0) :=
  Sha3.updateZeros_eq c n
theorem updateZeros_gost (c : Gost.Ctx) (n : Nat) : Gost.updateZeros c n = Gost.update c (List.replicate n 0) :=
  Gost.updateZeros_eq c n

/-- … and so does `updz` through the dispatcher, for every algorithm of this family -/
theorem updz_is_update {A : Impl} (hA : ∀ c n, A.updateZeros c n = A.update c (List.replicate n 0)) (h : Hash A) (n : Nat) :
    h.updateZeros n = h.update (List.replicate n 0) := by
  simp only [Hash.updateZeros, Hash.update, List.length_replicate, hA]

/-! ## (b) histories through the dispatcher -/

def sha3OK (R d : Nat) : ImplOK (sha3Impl R d) where
  P := fun c => c.blockSize = R.toUInt32
  create := rfl
  update := fun c d h => by show (Sha3.update c d).blockSize = _; simpa [Sha3.update] using h
  finish := fun c h => by show (Sha3.finish c).blockSize = _; simpa [Sha3.finish] using h
  reset := fun c h => Sha3.reset_eq_new h

def gostOK : ImplOK gost where
  P := fun _ => True
  create := trivial
  update := fun _ _ _ => trivial
  finish := fun _ _ => trivial
  reset := fun _ _ => rfl

/-- **history, SHA3-224**: for every sequence of update / reset / get_string / get_digest the visible
    digest is SHA3-224 of the bytes updated since creation or the last reset before the first read;
    reads are repeatable; updates after a read are ignored until reset; a too small `get_digest`
    buffer yields length 0 and changes nothing -/
theorem history_sha3_224 (ops : List Op) (hops : chunksOK (fun d => d.length < 2 ^ 63) ops) :
    (Hash.new sha3_224).run ops = specRun hashLen_sha3_224 (fun cs => Spec.sha3_224 cs.flatten) ⟨[], false⟩ ops :=
  history (A := sha3_224) (sha3OK sha3Rate224 hashLen_sha3_224) Spec.sha3_224 _ (fun cs h => chunking_sha3_224 cs h) ops hops

theorem history_sha3_256 (ops : List Op) (hops : chunksOK (fun d => d.length < 2 ^ 63) ops) :
    (Hash.new sha3_256).run ops = specRun hashLen_sha3_256 (fun cs => Spec.sha3_256 cs.flatten) ⟨[], false⟩ ops :=
  history (A := sha3_256) (sha3OK sha3Rate256 hashLen_sha3_256) Spec.sha3_256 _ (fun cs h => chunking_sha3_256 cs h) ops hops

theorem history_sha3_384 (ops : List Op) (hops : chunksOK (fun d => d.length < 2 ^ 63) ops) :
    (Hash.new sha3_384).run ops = specRun hashLen_sha3_384 (fun cs => Spec.sha3_384 cs.flatten) ⟨[], false⟩ ops :=
  history (A := sha3_384) (sha3OK sha3Rate384 hashLen_sha3_384) Spec.sha3_384 _ (fun cs h => chunking_sha3_384 cs h) ops hops

theorem history_sha3_512 (ops : List Op) (hops : chunksOK (fun d => d.length < 2 ^ 63) ops) :
    (Hash.new sha3_512).run ops = specRun hashLen_sha3_512 (fun cs => Spec.sha3_512 cs.flatten) ⟨[], false⟩ ops :=
  history (A := sha3_512) (sha3OK sha3Rate512 hashLen_sha3_512) Spec.sha3_512 _ (fun cs h => chunking_sha3_512 cs h) ops hops

theorem history_gost (ops : List Op) (hops : chunksOK (fun d => d.length < 2 ^ 61) ops) :
    (Hash.new gost).run ops = specRun hashLen_gost (fun cs => Spec.gost cs.flatten) ⟨[], false⟩ ops := by
  have := history gostOK Spec.gost _ (fun cs h => by
    have := chunking_gost cs h
    show List.take hashLen_gost (Gost.digest (Gost.finish (List.foldl Gost.update Gost.init cs))) = _
    rw [this]
    exact List.take_of_length_le (by simp [Spec.gost, Gost.bytesOfW8, Gost.W8.toList, Gost.bytesOfWord, hashLen_gost])) ops hops
  exact this

/-- the hex string: lower-case digits only, two per digest byte (so `2 * hash_len` for a digest) -/
theorem hex_lower (d : Bytes) :
    (Hash.toHex d).toList.length = 2 * d.length ∧
    ∀ c ∈ (Hash.toHex d).toList, c ∈ ['0', '1', '2', '3', '4', '5', '6', '7', '8', '9', 'a', 'b', 'c', 'd', 'e', 'f'] := by
  rw [toHex_toList]
  exact ⟨hexChars_length d, hexChars_lower d⟩

/-- the digest lengths of the dispatcher `switch` are the standards' (224/256/384/512 bits; 256 bits) -/
theorem digest_lengths (m : Bytes) :
    (Spec.sha3_224 m).length = hashLen_sha3_224 ∧ (Spec.sha3_256 m).length = hashLen_sha3_256 ∧
    (Spec.sha3_384 m).length = hashLen_sha3_384 ∧ (Spec.sha3_512 m).length = hashLen_sha3_512 ∧
    (Spec.gost m).length = hashLen_gost ∧
    hashLen_sha3_224 = 224 / 8 ∧ hashLen_sha3_256 = 256 / 8 ∧ hashLen_sha3_384 = 384 / 8 ∧
    hashLen_sha3_512 = 512 / 8 ∧ hashLen_gost = 256 / 8 := by
  have sq : ∀ (r d : Nat) (S : Keccak.Lanes), d ≤ r → (Spec.squeeze r S d).length = d := by
    intro r d S h
    rw [Spec.squeeze]
    have : ¬ (0 < r ∧ r < d) := by omega
    simp [this, Keccak.stateBytes]
  refine ⟨sq _ _ _ (by decide), sq _ _ _ (by decide), sq _ _ _ (by decide), sq _ _ _ (by decide), ?_,
    by decide, by decide, by decide, by decide, by decide⟩
  simp [Spec.gost, Gost.bytesOfW8, Gost.W8.toList, Gost.bytesOfWord, hashLen_gost]

/-! ## (c) what the two repairs of `pcryptohash-gost3411.c` are about (findings F9-GOST and the
lost checksum carry).  The model above is the *repaired* code; the translator refuses any other shape.

**F9 (single update of ≥ 2^32 bytes).**  The historical phase-1 test was
`if (left && (puint32) len >= to_fill)`.  With it the full-strength statement
```
theorem chunking_gost_historical (chunks) (hc : ∀ c ∈ chunks, c.length < 2 ^ 61) :
    digest (finish (chunks.foldl update_historical init)) = Spec.gost chunks.flatten
```
is false: after a 1-byte update, a chunk of `2^32 + 5` bytes is not used to complete the buffered
block (`(puint32) len = 5 < 31`), the buffered byte is then overwritten by phase 2.  It held only in
the form `…_partial` with `c.length < 2 ^ 32`.  The witness on the test sub-model: -/

/-- the historical, truncating phase-1 test -/
def topupHistorical (left : UInt32) (n : Nat) : Bool :=
  left != 0 && (n.toUInt64).toUInt32 >= (32 : UInt32) - left
/-- the repaired test (as in the model) -/
def topupFixed (left : UInt32) (n : Nat) : Bool :=
  left != 0 && n.toUInt64 >= ((32 : UInt32) - left).toUInt64

theorem f9_gost_topup_truncation :
    topupHistorical 1 (2 ^ 32 + 5) = false ∧ topupFixed 1 (2 ^ 32 + 5) = true := by decide

/-- the repaired test is the mathematical one for every chunk a C program can pass -/
theorem topupFixed_exact (left : UInt32) (hl : left.toNat < 32) (n : Nat) (hn : n < 2 ^ 64) :
    topupFixed left n = decide (left.toNat ≠ 0 ∧ 32 - left.toNat ≤ n) := by
  have hle : left ≤ (32 : UInt32) := by rw [UInt32.le_iff_toNat_le]; simp; omega
  have h0 : n.toUInt64.toNat = n := by simp; omega
  rw [Bool.eq_iff_iff]
  simp only [topupFixed, Bool.and_eq_true, bne_iff_ne, ne_eq, ge_iff_le, decide_eq_true_eq, UInt64.le_iff_toNat_le,
    UInt32.toNat_toUInt64, UInt32.toNat_sub_of_le _ _ hle, h0, ← UInt32.toNat_inj]
  simp

/-- **checksum carry.**  The historical loop of `sum_256` computed the carry as
    `a[i] < old || a[i] < b[i]`, which loses the carry when `old = b[i] = 0xFFFFFFFF` and a carry
    comes in.  With it `gost_sum256_exact` — and therefore `chunking_gost` against the standard's
    checksum — is false; witness (words 0 and 1 of the 64-byte message
    `ff ff ff ff ff ff ff ff 00…00 | 01 00 00 00 ff ff ff ff 00…00`): -/
def addcHistorical (a b : UInt32) (carry : Bool) : UInt32 × Bool :=
  let r := a + b + (if carry then 1 else 0)
  (r, r < a || r < b)

theorem gost_historical_carry_lost :
    let s0 := addcHistorical 0xFFFFFFFF 0x00000001 false
    let s1 := addcHistorical 0xFFFFFFFF 0xFFFFFFFF s0.2
    let t1 := Gost.addc 0xFFFFFFFF 0xFFFFFFFF (Gost.addc 0xFFFFFFFF 0x00000001 false).2
    s0.2 = true ∧ s1 = (0xFFFFFFFF, false) ∧ t1 = (0xFFFFFFFF, true) := by decide

/-- beyond `2^61` bytes in ONE update the two length words cannot hold the bit count
    (`len >> 29` no longer fits 32 bits): the hypothesis of `chunking_gost` is needed -/
theorem gost_len_words_beyond_2_61 :
    (Gost.W8.mk ((2 ^ 61 : Nat).toUInt64 <<< 3).toUInt32 ((2 ^ 61 : Nat).toUInt64 >>> 29).toUInt32 0 0 0 0 0 0).toNat
      ≠ 8 * 2 ^ 61 := by decide

/-! ## (d) the compression functions are the standards'

Until here the one-shot specs shared `keccakF` and the GOST step function with the models.  This
section removes that: the permutation of `pcryptohash-sha3.c` is proved equal to Keccak-f[1600]
written from FIPS 202 (`PV.Spec.KeccakStd`: θ ρ π χ ι on `A[x, y]`, ρ offsets from the
`(t+1)(t+2)/2` walk, ι constants from the LFSR `rc`), the step function of
`pcryptohash-gost3411.c` equal to χ written from GOST R 34.11-94 (`PV.Spec.GostStd`: A, P, C2…C4,
GOST 28147-89 with the source's S-boxes, ψ^12 / ψ / ψ^61), and the chunking and history theorems are
restated against `PV.Spec.HashXStd`, which contains nothing that was derived from the C code. -/

/-- the permutation in the C code (tables as extracted from the current source) is Keccak-f[1600] of FIPS 202 -/
theorem keccakF_is_fips202 (A : Array UInt64) (hA : A.size = 25) : Keccak.keccakF A = KeccakStd.keccakF A :=
  KeccakProof.keccakF_eq A hA

/-- the round-constant table of the C source is what the LFSR `rc` of FIPS 202 (Algorithm 5) produces -/
theorem keccak_round_constants : (List.range 24).map KeccakStd.RC = keccakK := KeccakProof.rc_table

/-- the ρ offsets produced by the walk of FIPS 202 (Algorithm 2), reduced mod 64, in lane order `x + 5 y` -/
theorem keccak_rho_offsets : (List.range 25).map (fun i => KeccakStd.offset (i % 5) (i / 5) % 64) =
    [0, 1, 62, 28, 27, 36, 44, 6, 55, 20, 3, 10, 43, 25, 39, 41, 45, 15, 21, 8, 18, 2, 61, 56, 14] :=
  KeccakProof.offset_table

/-- the step function of the C code is χ of GOST R 34.11-94 -/
theorem gost_step_is_standard (h m : Gost.W8) : Gost.step h m = GostStd.chi h m := GostProof.step_eq_chi h m

/-- its parts (`GostProof.lfsr12` … are the source-order pieces of `Gost.step`, tied to it by `GostProof.step_parts`):
    the three blocks of unrolled XOR formulas are `M ⊕ ψ^12 (S)`, `H ⊕ ψ (U)`, `ψ^61 (V)`;
    `P_GOST_3411_P` is the byte permutation φ; the unrolled rounds are `E`; the in-place key generation is A / C2…C4 -/
theorem gost_step_parts (x y : Gost.W8) (d0 d1 : UInt32) :
    GostProof.lfsr12 x y = GostStd.xor8 y (GostStd.psiPow 12 x) ∧ GostProof.lfsr1 x y = GostStd.xor8 y (GostStd.psiPow 1 x) ∧
    GostProof.lfsr61 x = GostStd.psiPow 61 x ∧ Gost.transP x = GostStd.P x ∧
    Gost.encrypt d0 d1 x = GostStd.E x d0 d1 ∧ GostProof.keyGenW x y = GostStd.keyW x y :=
  ⟨GostProof.lfsr12_eq x y, GostProof.lfsr1_eq x y, GostProof.lfsr61_eq x, GostProof.transP_eq x,
   GostProof.encrypt_eq d0 d1 x, GostProof.keyGenW_eq x y⟩

theorem chunking_sha3_224_std (chunks : List Bytes) (hc : ∀ c ∈ chunks, c.length < 2 ^ 63) :
    Sha3.digest (Sha3.finish (chunks.foldl Sha3.update (Sha3.new sha3Rate224))) hashLen_sha3_224
      = SpecStd.sha3_224 chunks.flatten := by
  rw [chunking_sha3_224 chunks hc]; exact SpecStdProof.sha3_eq 224 _

theorem chunking_sha3_256_std (chunks : List Bytes) (hc : ∀ c ∈ chunks, c.length < 2 ^ 63) :
    Sha3.digest (Sha3.finish (chunks.foldl Sha3.update (Sha3.new sha3Rate256))) hashLen_sha3_256
      = SpecStd.sha3_256 chunks.flatten := by
  rw [chunking_sha3_256 chunks hc]; exact SpecStdProof.sha3_eq 256 _

theorem chunking_sha3_384_std (chunks : List Bytes) (hc : ∀ c ∈ chunks, c.length < 2 ^ 63) :
    Sha3.digest (Sha3.finish (chunks.foldl Sha3.update (Sha3.new sha3Rate384))) hashLen_sha3_384
      = SpecStd.sha3_384 chunks.flatten := by
  rw [chunking_sha3_384 chunks hc]; exact SpecStdProof.sha3_eq 384 _

theorem chunking_sha3_512_std (chunks : List Bytes) (hc : ∀ c ∈ chunks, c.length < 2 ^ 63) :
    Sha3.digest (Sha3.finish (chunks.foldl Sha3.update (Sha3.new sha3Rate512))) hashLen_sha3_512
      = SpecStd.sha3_512 chunks.flatten := by
  rw [chunking_sha3_512 chunks hc]; exact SpecStdProof.sha3_eq 512 _

/-- **GOST, against the fully standard-structured one-shot hash** -/
theorem chunking_gost_std (chunks : List Bytes) (hc : ∀ c ∈ chunks, c.length < 2 ^ 61) :
    Gost.digest (Gost.finish (chunks.foldl Gost.update Gost.init)) = SpecStd.gost chunks.flatten := by
  rw [chunking_gost chunks hc]; exact SpecStdProof.gost_eq _

theorem history_sha3_224_std (ops : List Op) (hops : chunksOK (fun d => d.length < 2 ^ 63) ops) :
    (Hash.new sha3_224).run ops = specRun hashLen_sha3_224 (fun cs => SpecStd.sha3_224 cs.flatten) ⟨[], false⟩ ops := by
  rw [history_sha3_224 ops hops]; simp only [Spec.sha3_224, SpecStd.sha3_224, SpecStdProof.sha3_eq]

theorem history_sha3_256_std (ops : List Op) (hops : chunksOK (fun d => d.length < 2 ^ 63) ops) :
    (Hash.new sha3_256).run ops = specRun hashLen_sha3_256 (fun cs => SpecStd.sha3_256 cs.flatten) ⟨[], false⟩ ops := by
  rw [history_sha3_256 ops hops]; simp only [Spec.sha3_256, SpecStd.sha3_256, SpecStdProof.sha3_eq]

theorem history_sha3_384_std (ops : List Op) (hops : chunksOK (fun d => d.length < 2 ^ 63) ops) :
    (Hash.new sha3_384).run ops = specRun hashLen_sha3_384 (fun cs => SpecStd.sha3_384 cs.flatten) ⟨[], false⟩ ops := by
  rw [history_sha3_384 ops hops]; simp only [Spec.sha3_384, SpecStd.sha3_384, SpecStdProof.sha3_eq]

theorem history_sha3_512_std (ops : List Op) (hops : chunksOK (fun d => d.length < 2 ^ 63) ops) :
    (Hash.new sha3_512).run ops = specRun hashLen_sha3_512 (fun cs => SpecStd.sha3_512 cs.flatten) ⟨[], false⟩ ops := by
  rw [history_sha3_512 ops hops]; simp only [Spec.sha3_512, SpecStd.sha3_512, SpecStdProof.sha3_eq]

theorem history_gost_std (ops : List Op) (hops : chunksOK (fun d => d.length < 2 ^ 61) ops) :
    (Hash.new gost).run ops = specRun hashLen_gost (fun cs => SpecStd.gost cs.flatten) ⟨[], false⟩ ops := by
  rw [history_gost ops hops]; simp only [SpecStdProof.gost_eq]

/-! ## the rest of the entry points: accepted type integers, NULL arguments (see `PV.Props.C11md` (d)) -/

/-- the five enumerator values of this family pass the range test and select their own table row's digest length -/
theorem new_by_code_x :
    (codeTable.map fun p => (typeAccepted p.1, (implOfCode p.1).map (·.hashLen))) =
      [(true, some hashLen_sha3_224), (true, some hashLen_sha3_256), (true, some hashLen_sha3_384),
       (true, some hashLen_sha3_512), (true, some hashLen_gost)] := by decide

/-- any integer outside the enumeration is refused -/
theorem new_refuses_outside_x (c : Int) (h : c < 0 ∨ 10 < c) : typeAccepted c = false := by
  have h1 : PV.Generated.HashX.typeCodeMin = 0 := rfl
  have h2 : PV.Generated.HashX.typeCodeMax = 10 := rfl
  unfold typeAccepted
  rw [h1, h2]
  rcases h with h | h
  · have : ¬ (0 ≤ c) := by omega
    simp [this]
  · have : ¬ (c ≤ 10) := by omega
    simp [this]

/-- NULL data, a NULL output buffer and a NULL length pointer leave the object as it was -/
theorem null_arguments_ignored_x {A : Impl} (h : Hash A) (n cap : Nat) :
    h.updateNull n = h ∧ h.getDigestNullBuf cap = (h, 0) ∧ h.getDigestNullLen = h := ⟨rfl, rfl, rfl⟩

/-! ## non-vacuity -/
example : ∀ c ∈ ([[1, 2, 3], [], [4]] : List Bytes), c.length < 2 ^ 61 := by decide
example : chunksOK (fun d => d.length < 2 ^ 61) [.upd [1], .str, .upd [2], .dig 5, .reset, .upd [], .dig 32] := by
  intro d hd; simp at hd; rcases hd with rfl | rfl | rfl <;> decide
example : (specRun 32 (fun _ => [0xAB]) ⟨[], false⟩ [.upd [1], .dig 5, .dig 32, .upd [2], .str]).length = 5 := by decide

example : typeAccepted 10 = true ∧ typeAccepted 11 = false ∧ typeAccepted (-1) = false := by decide

end PV.HashX.C11x

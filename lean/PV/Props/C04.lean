import PV.Generated.Atomics
import PV.Lemmas.Bracket
import PV.Lemmas.Atomics
/-!
# C04 — atomic operations are indivisible and match C word arithmetic for every operand

All statements are about the records that `tools/extract_atomics.py` generated from the *current*
`patomic-c11.c`, `patomic-sync.c`, `patomic-sim.c` (`PV.Generated.Atomics`).  They cover every operand
value (`BitVec n`, no enumeration), every number of threads and every interleaving.

* `seq_semantics_{c11,sync,sim}` — single-threaded, each function stores and returns exactly what the C
  expression on a wrapping word gives (`PV.Atomics.spec`), and operates on a word of the promised width.
* `all_seq_cst_c11`, `all_seq_cst_sync`, `cas_all_strong` — memory orders / fences (decided on the table).
* `sim_bracket_structure` — every simulated function is `lock (M); body; unlock (M)` with nothing outside.
* `bracketed_linearizable` — any interleaving of such functions (bodies executed as individual loads and
  stores) = executing them one at a time in the order of the lock acquisitions.
* `ticket_unique`, `dec_and_test_exactly_one_true` — the two standard uses.
* `lockfree_linearizable` — for the c11 / sync back-ends an operation is *one* call of a builtin whose
  indivisibility is the GCC / hardware contract (trusted, DESIGN §4); in the interleaving model where one
  builtin call is one step the history is its own linearization.  This is by construction, not a deep fact.
-/
namespace PV.C04
open PV.Atomics PV.Locks PV.Generated.Atomics

set_option linter.unusedSimpArgs false
set_option linter.unusedVariables false

/-! ## 1. sequential semantics -/

/-- the record operates on a word of the width the API promises and means the spec function -/
def SeqOK (i : AtomicImpl) : Prop :=
  i.width = i.specWidth ∧ ∀ (n : Nat) (w a b : BitVec n), interp i w a b = some (spec i.op w a b)

def SimOK (f : SimFn) : Prop :=
  f.width = f.specWidth ∧ ∀ (n : Nat), 0 < n → ∀ (w a b : BitVec n), simInterp f w a b = some (spec f.op w a b)

theorem seq_semantics_c11 : ∀ i ∈ c11Table, SeqOK i := by
  intro i hi
  simp only [c11Table, List.mem_cons, List.not_mem_nil, or_false] at hi
  rcases hi with rfl | rfl | rfl | rfl | rfl | rfl | rfl | rfl | rfl | rfl | rfl | rfl | rfl | rfl | rfl | rfl
  all_goals
    refine ⟨rfl, fun n w a b => ?_⟩
    first
      | rfl
      | (by_cases h : w = a <;>
          simp [interp, operandVals, operandVal, builtinSem, formRet, spec, h, dec_lemma, c11_int_get, c11_int_set, c11_int_inc, c11_int_decAndTest, c11_int_cas, c11_int_add, c11_int_and, c11_int_or, c11_int_xor, c11_ptr_get, c11_ptr_set, c11_ptr_cas, c11_ptr_add, c11_ptr_and, c11_ptr_or, c11_ptr_xor])

theorem seq_semantics_sync : ∀ i ∈ syncTable, SeqOK i := by
  intro i hi
  simp only [syncTable, List.mem_cons, List.not_mem_nil, or_false] at hi
  rcases hi with rfl | rfl | rfl | rfl | rfl | rfl | rfl | rfl | rfl | rfl | rfl | rfl | rfl | rfl | rfl | rfl
  all_goals
    refine ⟨rfl, fun n w a b => ?_⟩
    first
      | rfl
      | (by_cases h : w = a <;>
          simp [interp, operandVals, operandVal, builtinSem, formRet, spec, h, dec_lemma, sync_int_get, sync_int_set, sync_int_inc, sync_int_decAndTest, sync_int_cas, sync_int_add, sync_int_and, sync_int_or, sync_int_xor, sync_ptr_get, sync_ptr_set, sync_ptr_cas, sync_ptr_add, sync_ptr_and, sync_ptr_or, sync_ptr_xor])

/-- running the extracted body of every `patomic-sim.c` function on a private word = the spec function -/
theorem seq_semantics_sim : ∀ f ∈ simTable, SimOK f := by
  intro f hf
  simp only [simTable, List.mem_cons, List.not_mem_nil, or_false] at hf
  rcases hf with rfl | rfl | rfl | rfl | rfl | rfl | rfl | rfl | rfl | rfl | rfl | rfl | rfl | rfl | rfl | rfl
  all_goals
    refine ⟨rfl, fun n hn w a b => ?_⟩
    by_cases h : w = a <;>
      simp [simInterp, simProg, execS, evalE, runRes, Env.get, Env.set, spec, h, b2w_eq_zero hn, b2w_bne_zero hn,
        sim_int_get, sim_int_set, sim_int_inc, sim_int_decAndTest, sim_int_cas, sim_int_add, sim_int_and, sim_int_or, sim_int_xor, sim_ptr_get, sim_ptr_set, sim_ptr_cas, sim_ptr_add, sim_ptr_and, sim_ptr_or, sim_ptr_xor]

/-! ## 2. memory orders and fences (the generated table is the finite domain) -/

/-- every order literal of `patomic-c11.c` is `__ATOMIC_SEQ_CST` (success and failure order of the CAS) -/
theorem all_seq_cst_c11 :
    c11Table.all (fun i => i.order == some .seqCst && (i.failOrder == none || i.failOrder == some .seqCst)
      && (!i.builtin.isCas || i.failOrder == some .seqCst) && !i.builtin.isSync
      && i.builtin != .plainLoad && i.builtin != .plainStore) = true := by decide

/-- sync model: a plain load is preceded by, a plain store followed by `__sync_synchronize ()` (the side
    that restores sequential consistency on a TSO machine: only store→load order can be lost there);
    everything else is a `__sync_*` builtin, a full barrier by the GCC contract. -/
def syncFenceOK (i : AtomicImpl) : Bool :=
  match i.builtin with
  | .plainLoad => i.fenceBefore
  | .plainStore => i.fenceAfter
  | b => b.isSync

theorem all_seq_cst_sync : syncTable.all syncFenceOK = true := by decide

/-- no compare-and-exchange of any table asks for the weak form (which may fail spuriously) -/
theorem cas_all_strong :
    (c11Table ++ syncTable ++ [spinC11.lockCas, spinC11.tryCas, spinSync.lockCas, spinSync.tryCas]).all
      (fun i => i.weak != some true) = true := by decide

/-! ## 3. indivisibility -/

/-- T2: every function of `patomic-sim.c` starts with `p_mutex_lock (pp_atomic_mutex)`, ends (before its
    return) with `p_mutex_unlock` of the same mutex, and has no mutex call and no access outside in between -/
theorem sim_bracket_structure : simTable.all SimFn.bracketed = true := by decide

/-- the programs a thread may run in the bracketed machine: any function of the generated table applied
    to any arguments -/
def SimOps (n : Nat) (prog : Res n (Ret n)) : Prop := ∃ f ∈ simTable, ∃ a b : BitVec n, prog = simProg f a b

/-- Any number of threads, any interleaving of `lock; <loads and stores of the body>; unlock`:
    (1) whenever the mutex is free the word and all return values are exactly those of executing the
        operations indivisibly, one after the other, in the order of their lock acquisitions;
    (2) at every moment the return values produced so far are those of such an execution of a prefix;
    (3) two threads are never inside bodies at the same time. -/
theorem bracketed_linearizable {n : Nat} {w0 : BitVec n} {s : BState n (Ret n)} (r : BReach (SimOps n) w0 s) :
    (s.owner = none → seqRun w0 s.acq = some (s.word, s.done)) ∧
    (∃ k w, seqRun w0 (s.acq.take k) = some (w, s.done)) ∧
    (∀ t u, ¬ (s.pc t).quiet → ¬ (s.pc u).quiet → t = u) :=
  ⟨bracket_quiescent r, bracket_prefix r, bracket_excl r⟩

/-- … and each of those indivisible executions is the spec function (so `seqRun` folds `spec`) -/
theorem bracketed_ops_are_spec {n : Nat} (hn : 0 < n) {prog : Res n (Ret n)} (h : SimOps n prog) :
    ∃ f ∈ simTable, ∃ a b : BitVec n, ∀ w, runRes prog w = some (spec f.op w a b) := by
  obtain ⟨f, hf, a, b, rfl⟩ := h
  exact ⟨f, hf, a, b, fun w => (seq_semantics_sim f hf).2 n hn w a b⟩

/-- the simulated `p_atomic_int_add (&x, 1)` is a fetch-and-increment -/
theorem sim_add_one_isFetchInc {n : Nat} (hn : 0 < n) (b : BitVec n) : IsFetchInc (simProg sim_int_add (1#n) b) := by
  intro w
  have := (seq_semantics_sim sim_int_add (by simp [simTable])).2 n hn w 1#n b
  simpa [simInterp, spec, sim_int_add] using this

theorem sim_decAndTest_isDecTest {n : Nat} (hn : 0 < n) (a b : BitVec n) : IsDecTest (simProg sim_int_decAndTest a b) := by
  intro w
  have := (seq_semantics_sim sim_int_decAndTest (by simp [simTable])).2 n hn w a b
  simpa [simInterp, spec, sim_int_decAndTest] using this

/-- Ticket dispenser: with any number of threads concurrently executing fetch-and-add (1) (bracketed
    bodies, e.g. `sim_add_one_isFetchInc`), the values returned are pairwise distinct as long as fewer
    than 2^n adds have completed; the i-th completed add returns `w0 + i`. -/
theorem ticket_unique {n : Nat} {w0 : BitVec n} {s : BState n (Ret n)} (r : BReach IsFetchInc w0 s)
    (hlen : s.done.length ≤ 2 ^ n) :
    (∀ i (hi : i < s.done.length), (s.done[i]).2 = Ret.val (w0 + BitVec.ofNat n i)) ∧
    (∀ i j (hi : i < s.done.length) (hj : j < s.done.length), i ≠ j → (s.done[i]).2 ≠ (s.done[j]).2) := by
  obtain ⟨k, w, hk⟩ := bracket_prefix r
  have hops : ∀ p ∈ s.acq.take k, IsFetchInc p.2 := fun p hp => (bracket_acq_ops r).2 p (List.mem_of_mem_take hp)
  obtain ⟨rs, h1, h2, h3⟩ := seqRun_fetchInc hops w0
  rw [hk] at h1
  injection h1 with h1; injection h1 with _ e; subst e
  refine ⟨h3, fun i j hi hj hij heq => ?_⟩
  rw [h3 i hi, h3 j hj] at heq
  injection heq with heq
  have h4 : BitVec.ofNat n i = BitVec.ofNat n j := (BitVec.add_right_inj w0).1 heq
  have h5 := congrArg BitVec.toNat h4
  simp only [BitVec.toNat_ofNat] at h5
  rw [Nat.mod_eq_of_lt (by omega), Nat.mod_eq_of_lt (by omega)] at h5
  exact hij h5

/-- Reference counting: from a positive count `w0`, with any number of threads concurrently executing
    `dec_and_test` and no more decrements than the count, exactly the decrement that reaches zero returns
    TRUE: the i-th completed one (0-based, in lock-acquisition order) returns `i + 1 = w0`. -/
theorem dec_and_test_exactly_one_true {n : Nat} {w0 : BitVec n} {s : BState n (Ret n)} (r : BReach IsDecTest w0 s)
    (hlen : s.done.length ≤ w0.toNat) :
    ∀ i (hi : i < s.done.length), (s.done[i]).2 = Ret.bool (decide (i + 1 = w0.toNat)) := by
  obtain ⟨k, w, hk⟩ := bracket_prefix r
  have hops : ∀ p ∈ s.acq.take k, IsDecTest p.2 := fun p hp => (bracket_acq_ops r).2 p (List.mem_of_mem_take hp)
  obtain ⟨rs, h1, h2, h3⟩ := seqRun_decTest hops w0
  rw [hk] at h1
  injection h1 with h1; injection h1 with _ e; subst e
  intro i hi
  rw [h3 i hi]
  congr 1
  have hlt : w0.toNat < 2 ^ n := w0.isLt
  rw [Bool.eq_iff_iff, beq_iff_eq, decide_eq_true_eq]
  constructor
  · intro h
    have h2 : w0 - BitVec.ofNat n (i + 1) + BitVec.ofNat n (i + 1) = w0 := BitVec.sub_add_cancel _ _
    rw [h] at h2
    have h5 := congrArg BitVec.toNat h2
    simp only [BitVec.ofNat_eq_ofNat, BitVec.zero_add, BitVec.toNat_ofNat] at h5
    rw [Nat.mod_eq_of_lt (by omega)] at h5
    exact h5
  · intro h
    have : BitVec.ofNat n (i + 1) = w0 := by
      rw [h, BitVec.ofNat_toNat, BitVec.setWidth_eq]
    rw [this]; exact BitVec.sub_self w0

/-! ### the bracket needs its mutex: life cycle of `pp_atomic_mutex`

`bracketed_linearizable` is about threads that all lock ONE mutex.  In the source that mutex is a file-scope
pointer created by `p_atomic_thread_init`; with the pointer NULL `p_mutex_lock` returns FALSE at once and the
body runs unprotected.  The translator reads the declaration and the two life-cycle functions
(`PV.Generated.Atomics.simInit`); these theorems are the facts the bracket relies on. -/

/-- one pointer per process (file-scope `static`, not thread-local), assigned only by init / shutdown -/
theorem sim_mutex_process_wide : simInit.mutexStatic = true := by decide

/-- after `p_atomic_thread_init` the mutex exists … -/
theorem sim_init_creates (k : Nat) : simInitStep simInit k none .init = some k := by
  simp [simInitStep, simInit]

/-- … and any further init call keeps that very mutex (threads that are inside an operation, or start one
    later, all bracket with the same object) -/
theorem sim_init_keeps (k m : Nat) : simInitStep simInit k (some m) .init = some m := by
  simp [simInitStep, simInit]

def runInits : List Nat → Option Nat → Option Nat
  | [], m => m
  | k :: ks, m => runInits ks (simInitStep simInit k m .init)

/-- any number of init calls (whatever identities `p_mutex_new` would hand out): the first one's mutex stays -/
theorem sim_init_idempotent (k : Nat) (ks : List Nat) : runInits (k :: ks) none = some k := by
  have keep : ∀ (ks : List Nat) (m : Nat), runInits ks (some m) = some m := by
    intro ks; induction ks with
    | nil => intro m; rfl
    | cons a as ih => intro m; simp [runInits, sim_init_keeps, ih]
  simp [runInits, sim_init_creates, keep]

theorem sim_shutdown_clears (k : Nat) (m : Option Nat) : simInitStep simInit k m .shutdown = none := by
  simp [simInitStep, simInit]

/-- with the mutex alive every simulated operation makes exactly one native lock and one native unlock call
    (and none without it): the run-time observable the harness compares (`natives`) -/
theorem sim_native_calls : simTable.all (fun f => f.nativeCalls true == (1, 1) && f.nativeCalls false == (0, 0)) = true := by decide

/-- `p_atomic_is_lock_free` tells the truth about each back-end -/
theorem lock_free_truthful : lockFreeC11 = true ∧ lockFreeSync = true ∧ lockFreeSim = false := by decide

/-! ### lock-free back-ends: one builtin call = one step -/

/-- every concurrent history of the lock-free models is the sequential history of the spec operations in
    the order in which the builtin calls took effect: same final word, same return values.
    Immediate from "one builtin = one step" (trusted contract) and `seq_semantics`. -/
theorem lockfree_linearizable (tbl : List AtomicImpl) (htbl : ∀ i ∈ tbl, SeqOK i) {n : Nat} (w0 : BitVec n)
    (s : LState n) (r : LReach tbl w0 s) : specRun w0 s.ops = (s.word, s.rets) := by
  induction r with
  | init => rfl
  | step _ st ih =>
    cases st with
    | op i a b w' r hi hint =>
      rename_i s _
      have hs := (htbl i hi).2 n s.word a b
      rw [hint] at hs; injection hs with hs
      rw [specRun_snoc, ih, ← hs]

/-! ## non-vacuity -/

/-- operands where wrapping matters: INT_MAX + 1 wraps to INT_MIN and the old value is returned -/
example : interp c11_int_add (0x7fffffff#32) 1#32 0 = some (0x80000000#32, Ret.val 0x7fffffff#32) := by decide
example : simInterp sim_int_add (0xffffffff#32) 1#32 0 = some (0#32, Ret.val 0xffffffff#32) := by decide
example : interp sync_int_decAndTest (1#32) 0 0 = some (0#32, Ret.bool true) := by decide
example : interp sync_int_decAndTest (0#32) 0 0 = some (0xffffffff#32, Ret.bool false) := by decide
example : simInterp sim_ptr_cas (5#64) 5#64 9#64 = some (9#64, Ret.bool true) := by decide
example : simInterp sim_ptr_cas (5#64) 6#64 9#64 = some (5#64, Ret.bool false) := by decide

/-- a reachable state of the bracketed machine with two threads whose bodies interleave with the other
    thread's lock attempts: thread 0 holds and has loaded, thread 1 waits -/
example : ∃ s : BState 32 (Ret 32), BReach (SimOps 32) 7#32 s ∧ s.owner = some 0 ∧
    (∃ p, s.pc 1 = .waiting p) ∧ ¬ (s.pc 0).quiet := by
  let p : Res 32 (Ret 32) := simProg sim_int_add 1#32 0
  have hp : SimOps 32 p := ⟨sim_int_add, by simp [simTable], 1#32, 0, rfl⟩
  have r0 : BReach (SimOps 32) 7#32 (bInit 7#32) := .init
  have r1 := BReach.step r0 (BStep.call _ 0 p rfl hp)
  have r2 := BReach.step r1 (BStep.call _ 1 p rfl hp)
  have r3 := BReach.step r2 (BStep.lock _ 0 p rfl rfl)
  exact ⟨_, r3, rfl, ⟨p, rfl⟩, by simp [upd, BPC.quiet]⟩

/-- init, init, shutdown, init: the second init keeps mutex 0, the init after a shutdown creates a new one -/
example : simInitStep simInit 1 (simInitStep simInit 0 none .init) .init = some 0 ∧
    simInitStep simInit 2 (simInitStep simInit 9 (some 0) .shutdown) .init = some 2 := by decide

/-- `ticket_unique` / `dec_and_test_exactly_one_true` are about inhabited sets of programs -/
example : IsFetchInc (simProg sim_int_add (1#32) 0) := sim_add_one_isFetchInc (by decide) 0
example : IsDecTest (simProg sim_int_decAndTest (0#32) 0) := sim_decAndTest_isDecTest (by decide) 0 0

end PV.C04

import PV.Lemmas.IPCSysV
import PV.Lemmas.IPCSysVSeg
import PV.Lemmas.IPCSysVAtt
/-!
# C07, System V variant — shared memory (`pshm-sysv.c` + `psemaphore-sysv.c` + key files over `PV.SysV.OS`)
-/
namespace PV.SysV.C07
open PV.SysV PV.Generated.IPCSysV

/-! ## 0. extracted facts -/

theorem source_as_modelled :
    hasFlag (shmgetExclFlags ||| shmPermRW) IPC_CREAT = true ∧ hasFlag (shmgetExclFlags ||| shmPermRW) IPC_EXCL = true ∧
    hasFlag (shmgetExclFlags ||| shmPermRO) IPC_CREAT = true ∧ hasFlag (shmgetExclFlags ||| shmPermRO) IPC_EXCL = true ∧
    hasFlag (shmgetPlainFlags ||| shmPermRW) IPC_CREAT = false ∧ hasFlag (shmgetPlainFlags ||| shmPermRO) IPC_CREAT = false ∧
    shmgetPlainSize = 0 ∧ shmgetExistsErrno = EEXIST ∧ shmStatCmd = IPC_STAT ∧ shmCleanStatCmd = IPC_STAT ∧ shmRmidCmd = IPC_RMID ∧
    IPC_STAT ≠ IPC_RMID ∧ shmatFlagsRO = SHM_RDONLY ∧ shmatFlagsRW = 0 ∧ shmLockInit = 1 ∧
    sites_pp_shm_create_handle = ["p_ipc_unix_create_key_file", "pp_shm_clean_handle", "p_ipc_unix_get_ftok_key", "pp_shm_clean_handle",
      "shmget", "shmget", "pp_shm_clean_handle", "shmctl", "pp_shm_clean_handle", "shmat", "pp_shm_clean_handle", "p_semaphore_new", "pp_shm_clean_handle"] ∧
    sites_pp_shm_clean_handle = ["shmdt", "shmctl", "shmctl", "unlink", "p_semaphore_free"] ∧
    sites_p_shm_new = ["p_shm_free", "pp_shm_create_handle", "p_shm_free"] ∧
    sites_p_shm_take_ownership = ["p_semaphore_take_ownership"] := by decide

/-! ## 1. same bytes through all attachments; sizes -/

/-- a store through one attachment of a segment is what a load through ANY attachment of the same segment (any
    process) returns at that offset -/
theorem same_segment_same_bytes (os os' : OS) (p q : Pid) (a a' off : Nat) (b : UInt8) (x y : Att)
    (hx : findAtt (os.procs p) a = some x) (hy : findAtt (os.procs q) a' = some y) (hs : x.seg = y.seg)
    (hst : os.store p a off b = some os') : os'.load q a' off = .val b := by
  simp only [OS.store, hx] at hst
  split at hst
  · rename_i hc
    simp only [Option.some.injEq] at hst
    subst hst
    simp [OS.load, OS.setSeg, hy, hs.symm, hc.1]
  · cases hst

/-- the size `p_shm_get_size` reports is never larger than the segment (`shm_segsz` from IPC_STAT): every offset below
    it is inside the segment; it is the request when that is non-zero and smaller, else the segment's size -/
theorem reported_size (req sz : Nat) :
    clampSize req sz ≤ sz ∧ (req ≠ 0 → req < sz → clampSize req sz = req) ∧ (req = 0 ∨ sz ≤ req → clampSize req sz = sz) := by
  unfold clampSize
  refine ⟨?_, ?_, ?_⟩
  · split <;> rename_i h <;> simp at h <;> omega
  · intro h1 h2; simp [h1, h2]
  · intro h; split <;> rename_i h' <;> simp at h' <;> omega

/-! ## 1b. one segment per name -/

/-- All PShm handles of one name opened since the name's last creation refer to the same live segment — for EVERY schedule
    (any interleaving of the system calls of any calls of any threads of any processes, SIGKILLs, EINTR) — under the explicit
    hypotheses (a) inode numbers are not reused (`SegInv.bound.noreuse : g.os.reuse = false`, the oracle of finding F15) and
    (b) no clean-up of the name reaches its IPC_RMID or its unlink in between (`SegQuietRun n g as`: under System V the LAST
    detach of any handle removes the segment, and an owner's free unlinks the key file).  `SegInv n i sid`: key file `.shm n`
    has inode `i`, whose key names the live, unmarked segment `sid`, nothing else refers to `i` / `sid`; every live PShm struct
    of name `n` has `shm_hdl = sid`, every struct of another name a different id; every machine in flight (a `p_shm_new` /
    `p_shm_free` between two of its system calls, its lock-semaphore sub-machine included) is consistent with that. -/
theorem one_segment_per_name (n : Nat) (i : Ino) (sid : SegId) (g : G) (as : List Action)
    (h0 : SegInv n i sid g) (hq : SegQuietRun n g as) : SegInv n i sid (execAll g as) :=
  seginv_execAll n i sid as g h0 hq

/-- … hence any two live handles of the name (in any processes) carry the id of one live segment, which the key file still names -/
theorem same_segment (n : Nat) (i : Ino) (sid : SegId) (g : G) (h1 h2 : Hid) (p1 p2 : Pid) (m1 m2 : PShm)
    (hi : SegInv n i sid g) (e1 : g.hs h1 = some (p1, .shm m1)) (e2 : g.hs h2 = some (p2, .shm m2)) (n1 : m1.name = n) (n2 : m2.name = n) :
    m1.hdl = some sid ∧ m2.hdl = some sid ∧ (g.os.segs sid).alive = true ∧
    (g.os.files (.shm n)).bind (fun j => g.os.shmKeys (ftokOf j)) = some sid := by
  have a1 := (hi.hs h1 p1 _ e1).1
  have a2 := (hi.hs h2 p2 _ e2).1
  simp only [n1, n2, if_true] at a1 a2
  exact ⟨a1, a2, hi.bound.alive, by simp [hi.bound.file, hi.bound.key]⟩

/-- the address of a handle is an attachment of its process to the segment its `shm_hdl` names (what `shmat (shm_hdl)` returned).
    NOTE: established by the `shmat` step of `p_shm_new`; its preservation over arbitrary action lists (address freshness and
    distinctness per process) is NOT proved here — it is an explicit hypothesis of the next theorem. -/
def Attached (g : G) (p : Pid) (m : PShm) : Prop :=
  ∃ a att, m.addr = .at a ∧ findAtt (g.os.procs p) a = some att ∧ m.hdl = some att.seg

/-- the only way `Attached` is lost: a step of ANY thread of ANY process keeps the struct `m` of process `p` attached — unless it
    is a `shmdt` issued by `p` itself with exactly `m`'s address (`hfresh`: attachment addresses of `p` are below its next
    address, which `shmat` preserves) -/
theorem attached_until_own_shmdt (g : G) (t : Tid) (intr : Bool) (c : Call) (p : Pid) (m : PShm)
    (hc : g.calls t = some c) (ha : Attached g p m)
    (hfresh : ∀ att, att ∈ (g.os.procs p).atts → att.addr < (g.os.procs p).nextAddr)
    (hdt : g.pidOf t = p → ∀ a, c.next = .shmdt (some a) → m.addr ≠ .at a) : Attached (g.step t intr) p m := by
  have ha' : attached (g.os.procs p) m := ha
  have := attached_sysStep p (g.pidOf t) intr c.next g.os c.name m ha' hfresh hdt
  rw [← step_os g t intr c hc] at this
  exact this

/-- … and the library issues `shmdt` only as the first step of a clean-up (`p_shm_free`, or a failing `p_shm_new`), with the
    address stored in that call's own struct -/
theorem shmdt_only_in_cleanup (c : Call) (b : Option Nat) (h : c.next = .shmdt b) :
    ∃ s, (c = .shmFree s ∨ ∃ hid, c = .shmNew hid s) ∧ s.pc = .kDt ∧ b = addrOpt s.h.addr := by
  have semno : ∀ st : SemSt, st.next ≠ .shmdt b := by
    intro st e
    obtain ⟨api, sh, spc, _, _, _⟩ := st
    cases spc <;> simp [SemSt.next] at e
  have shm : ∀ s : ShmSt, s.next = .shmdt b → s.pc = .kDt ∧ b = addrOpt s.h.addr := by
    intro s e
    obtain ⟨isNew, hh, req, pc, built, isExists, failing⟩ := s
    cases pc with
    | kDt => simp only [ShmSt.next, Sys.shmdt.injEq] at e; exact ⟨rfl, e.symm⟩
    | cSem st => exact absurd (by simpa [ShmSt.next] using e) (semno st)
    | kSem st => exact absurd (by simpa [ShmSt.next] using e) (semno st)
    | _ => simp [ShmSt.next] at e
  cases c with
  | semNew hid s => exact absurd h (semno s)
  | semFree s => exact absurd h (semno s)
  | semOp hid s => exact absurd h (semno s)
  | lockOp hid m s => exact absurd h (semno s)
  | shmNew hid s => exact ⟨s, Or.inr ⟨hid, rfl⟩, shm s h⟩
  | shmFree s => exact ⟨s, Or.inl rfl, shm s h⟩

/-- same bytes through all handles of the name: under the invariant, a store through any live handle of the name that does not
    fault is what a load through any other live handle of the name (any process) returns at that offset — provided both
    handles' addresses are attachments to the segment their `shm_hdl` names (`Attached`, see the note there) -/
theorem same_name_same_bytes_sysv (n : Nat) (i : Ino) (sid : SegId) (g : G) (h1 h2 : Hid) (p1 p2 : Pid) (m1 m2 : PShm)
    (a1 a2 off : Nat) (b : UInt8) (os' : OS)
    (hi : SegInv n i sid g) (e1 : g.hs h1 = some (p1, .shm m1)) (e2 : g.hs h2 = some (p2, .shm m2)) (n1 : m1.name = n) (n2 : m2.name = n)
    (t1 : Attached g p1 m1) (t2 : Attached g p2 m2) (ha1 : m1.addr = .at a1) (ha2 : m2.addr = .at a2)
    (hst : g.os.store p1 a1 off b = some os') : os'.load p2 a2 off = .val b := by
  obtain ⟨s1, s2, _, _⟩ := same_segment n i sid g h1 h2 p1 p2 m1 m2 hi e1 e2 n1 n2
  obtain ⟨b1, x, hb1, hx, hxs⟩ := t1
  obtain ⟨b2, y, hb2, hy, hys⟩ := t2
  rw [ha1] at hb1; rw [ha2] at hb2
  cases hb1; cases hb2
  rw [s1] at hxs; rw [s2] at hys
  exact same_segment_same_bytes g.os os' p1 p2 a1 a2 off b x y hx hy
    ((Option.some.inj hxs).symm.trans (Option.some.inj hys)) hst

/-! ## 2. the lock -/

/- FULL STATEMENT (false of the code, finding F16 — see `lock_is_mutex_false`):
   theorem lock_is_mutex : lock / unlock through all live handles of one segment behave as one mutex: `p_shm_lock`
   returns only by taking the single unit of the segment's lock set.
   Excluded region of the partial theorem: the lock set of the handle was removed (an owner's free ran IPC_RMID on it)
   since the handle was opened: `(g.os.sems i).alive = false`. -/

/-- `p_shm_lock` through a handle whose lock set is alive returns exactly at a `semop` that found the unit and takes
    it; a step that does not return changes nothing: with value ≤ 1 at most one holder -/
theorem lock_is_mutex_partial (g : G) (t : Tid) (hid : Hid) (m : PShm) (h : PSem) (rc : Bool) (i : SemId)
    (hc : g.calls t = some (.lockOp hid m { api := .acquire, h := h, pc := .op, recreated := rc }))
    (hi : h.hdl = some i) (hl : (g.os.sems i).alive = true) :
    ((g.step t false).calls t = none ↔ 0 < (g.os.sems i).value) ∧
    ((g.step t false).calls t = none → (g.os.sems i).value = ((g.step t false).os.sems i).value + 1 ∧ (g.step t false).ret t = some .unit) ∧
    ((g.step t false).calls t ≠ none → (g.step t false).os = g.os) := by
  by_cases hv : (g.os.sems i).value = 0 <;>
    simp [G.step, hc, Call.next, Call.after, SemSt.next, SemSt.after, SemSt.buf, sysStep, Sys.interruptible, semopF,
      semAlive, hi, hl, hv, acquireBuf, hasFlag, SEM_UNDO, G.setCall, G.setRet, G.setHandle, OS.setSem, retOf]
  omega

/-- the recorded history of F16 up to the second lock -/
def f16Before : G :=
  ((((((G.init id).call 0 (.newShm 0 0 100 false)).call 1 (.newShm 1 0 0 false)).call 2 (.newShm 2 0 0 false)).call 0 (.own 0)).call 1 (.lock 1)).call 0 (.free 0)

def lockHdl (g : G) (h : Hid) : Option SemId :=
  match g.hs h with
  | some (_, .shm x) => x.sem.bind (·.hdl)
  | _ => none

set_option maxRecDepth 100000 in
/-- negation of `lock_is_mutex` on the recorded witness `0 new-shm 0 m0 100; 1 new-shm 1 m0 0; 2 new-shm 2 m0 0;
    0 own 0; 1 lock 1; 0 free 0; 2 lock 2`: handles 1 and 2 were opened on one lock set (id 0); handle 1 holds the
    lock (value 0) when the owner's free removes the set; `p_shm_lock` through handle 2 then returns TRUE on a NEW set
    (id 1): two holders -/
theorem lock_is_mutex_false :
    lockHdl ((((G.init id).call 0 (.newShm 0 0 100 false)).call 1 (.newShm 1 0 0 false)).call 2 (.newShm 2 0 0 false)) 1 = some 0 ∧
    lockHdl ((((G.init id).call 0 (.newShm 0 0 100 false)).call 1 (.newShm 1 0 0 false)).call 2 (.newShm 2 0 0 false)) 2 = some 0 ∧
    f16Before.ret 1 = some .unit ∧ (f16Before.os.sems 0).alive = false ∧ (f16Before.os.sems 0).value = 0 ∧
    (f16Before.call 2 (.lock 2)).ret 2 = some .unit ∧ lockHdl (f16Before.call 2 (.lock 2)) 2 = some 1 ∧
    lockHdl (f16Before.call 2 (.lock 2)) 1 = some 0 := by decide

/-! ## 3. owner free, then a fresh segment -/

/- FULL STATEMENT (false of the code when inode numbers are reused, finding F15 — see `owner_free_fresh_false`):
   theorem owner_free_fresh : after `take_ownership; free` of a handle the next `p_shm_new (name, size)` creates a
   fresh, zeroed segment of exactly `size` bytes.
   Excluded region of the partial theorem: another handle is still attached at the owner's free AND the file system
   hands the freed inode number to the next key file (`OS.reuse = true`). -/

/-- the recorded history of F15, parameterised by the inode policy -/
def f15 (reuse : Bool) : G :=
  ((((((G.init id reuse).call 0 (.newShm 0 0 100 false)).call 0 (.wr 0 0 7)).call 1 (.newShm 1 0 0 false)).call 1 (.own 1)).call 1 (.free 1)).call 2
    (.newShm 2 0 200 false)

def sizeOf (g : G) (h : Hid) : Option Nat :=
  match g.hs h with
  | some (_, .shm x) => some x.size
  | _ => none

def segOf (g : G) (h : Hid) : Option SegId :=
  match g.hs h with
  | some (p, .shm x) => ((addrOpt x.addr).bind fun a => findAtt (g.os.procs p) a).map (·.seg)
  | _ => none

set_option maxRecDepth 100000 in
/-- without inode reuse (the excluded region's second half absent) the recorded history DOES give a fresh zeroed segment
    of the requested size, although handle 0 is still attached to the old one -/
theorem owner_free_fresh_partial :
    sizeOf (f15 false) 2 = some 200 ∧ segOf (f15 false) 2 = some 1 ∧ segOf (f15 false) 0 = some 0 ∧
    ((f15 false).call 2 (.rd 2 0)).ret 2 = some (.byte 0) := by decide

set_option maxRecDepth 100000 in
/-- negation on the recorded witness `0 new-shm 0 m0 100; 0 wr 0 0 7; 1 new-shm 1 m0 0; 1 own 1; 1 free 1;
    2 new-shm 2 m0 200; 2 rd 2 0` with inode reuse: the new handle reports the OLD size 100, is attached to the OLD
    segment (id 0, the one handle 0 still maps) and reads the old byte 7 -/
theorem owner_free_fresh_false :
    sizeOf (f15 true) 2 = some 100 ∧ segOf (f15 true) 2 = some 0 ∧ segOf (f15 true) 0 = some 0 ∧
    ((f15 true).call 2 (.rd 2 0)).ret 2 = some (.byte 7) := by decide

/-! ## 4. sizes, clean-up and crash recovery — ENUMERATED FINITE SCOPE (evaluation of the executable model) -/

def shmOf (g : G) (n : Nat) : Option SegId := (g.os.files (.shm n)).bind fun i => g.os.shmKeys (ftokOf i)

def aliveSegs (g : G) : List SegId := (List.range g.os.nextSeg).filter fun i => (g.os.segs i).alive
def aliveSems (g : G) : List SemId := (List.range g.os.nextSem).filter fun i => (g.os.sems i).alive

set_option maxRecDepth 100000 in
/-- (scope: creator sizes 1, 64, 100; follower requests 0, 1, 50, 100, 200; readonly or not) the creator reports exactly
    its size, a follower the request when non-zero and smaller, else the creator's; both are attached to one segment,
    share one lock set; a store of the creator is read by the follower; after both are freed (last one as owner)
    nothing is left: no segment, no set, no key file of the segment -/
theorem sizes_and_cleanup_scope :
    (List.all [false, true] fun r => List.all [1, 64, 100] fun c => List.all [0, 1, 50, 100, 200] fun q => List.all [false, true] fun ro =>
      let g1 := (G.init id r).call 0 (.newShm 0 0 c false)
      let g2 := g1.call 1 (.newShm 1 0 q ro)
      let g3 := g2.call 0 (.wr 0 0 9)
      let g4 := ((g3.call 1 (.free 1)).call 0 (.own 0)).call 0 (.free 0)
      decide (sizeOf g1 0 = some c) && decide (sizeOf g2 1 = some (if q = 0 ∨ c ≤ q then c else q)) &&
      decide (segOf g2 0 = segOf g2 1) && decide ((segOf g2 0).isSome) && decide (lockHdl g2 0 = lockHdl g2 1) && decide ((lockHdl g2 0).isSome) &&
      decide ((g3.call 1 (.rd 1 0)).ret 1 = some (.byte 9)) &&
      decide (aliveSegs g4 = []) && decide (aliveSems g4 = []) && decide (g4.os.files (.shm 0) = none)) = true := by
  decide

def crashAt (g : G) (tc : Tid) (op : Op) (j : Nat) : G :=
  ((List.replicate j (Action.step tc false)).foldl exec (g.start tc op)).kill (g.pidOf tc)

/-- the documented recovery: open (size 0), take ownership, free, create (thread / process 2) -/
def recover (g : G) (size : Nat) : G :=
  (((g.call 2 (.newShm 8 0 0 false)).call 2 (.own 8)).call 2 (.free 8)).call 2 (.newShm 9 0 size false)

/-- clean: the name is bound to a live zeroed segment of exactly `size` bytes with a lock of value 1 which a later opener
    joins; no other segment or set is alive -/
def cleanAfter (g : G) (size : Nat) : Bool :=
  decide (sizeOf g 9 = some size) && decide ((shmOf g 0).isSome) && decide (shmOf g 0 = segOf g 9) &&
  decide ((shmOf g 0).map (fun s => (g.os.segs s).bytes) = some (List.replicate size 0)) &&
  (let g' := g.call 3 (.newShm 10 0 0 false)
   decide (segOf g' 10 = segOf g 9) && decide (lockHdl g' 10 = lockHdl g 9) && decide ((g'.call 3 (.lock 10)).ret 3 = some .unit)) &&
  decide ((aliveSegs g).length = 1) && decide ((aliveSems g).length = 1)

set_option maxRecDepth 100000 in
/-- (scope: crash at EVERY step index j ≤ 16 of `p_shm_new` on a fresh name and of the free of the last handle / of an owner
    whose segment nobody else maps; no inode reuse) the documented recovery ends in a clean state.  With another process
    still attached the old segment lives on until that process detaches (System V contract) — and with inode reuse the
    recovery's create joins it: finding F15. -/
theorem crash_recoverable_scope :
    (List.all (List.range 17) fun j =>
      let fresh := G.init id
      let one := (G.init id).call 0 (.newShm 0 0 64 false)
      cleanAfter (recover (crashAt fresh 0 (.newShm 0 0 64 false) j) 32) 32 &&
      cleanAfter (recover (crashAt one 0 (.free 0) j) 32) 32 &&
      cleanAfter (recover (crashAt (one.call 0 (.own 0)) 0 (.free 0) j) 32) 32 &&
      cleanAfter (recover (crashAt (one.call 0 (.lock 0)) 0 (.unlock 0) j) 32) 32) = true := by
  decide

/-! ## non-vacuity -/

/-- a state with name m0 bound (inode 1, key 1 = segment 0 of 4 bytes) and two attached handles in two processes, written out -/
def segDemo : G :=
  { os := { OS.init with files := fun g => if g = .shm 0 then some 1 else none, nextIno := 2,
                         shmKeys := fun k => if k = 1 then some 0 else none,
                         segs := fun j => if j = 0 then { bytes := [0, 0, 0, 0], nattch := 2, alive := true } else {}, nextSeg := 1,
                         procs := fun _ => { atts := [⟨1, 0, false⟩], nextAddr := 2 } },
    pidOf := id,
    hs := fun h => if h = 0 then some (0, .shm { name := 0, hdl := some 0, addr := .at 1, size := 4, ro := false })
                   else if h = 1 then some (1, .shm { name := 0, hdl := some 0, addr := .at 1, size := 4, ro := false }) else none,
    calls := fun _ => none, ret := fun _ => none, log := [] }

/-- the hypotheses of `one_segment_per_name` / `same_segment` / `same_name_same_bytes_sysv` are satisfiable -/
example : SegInv 0 1 0 segDemo ∧ SegQuietRun 0 segDemo [.kill 2] ∧
    Attached segDemo 0 { name := 0, hdl := some 0, addr := .at 1, size := 4, ro := false } ∧ (segDemo.os.store 0 1 2 9).isSome = true := by
  refine ⟨⟨⟨rfl, rfl, rfl, rfl, by decide, ?_, ?_, by decide, rfl⟩, ?_, ?_⟩, ⟨?_, trivial⟩, ⟨1, ⟨1, 0, false⟩, rfl, rfl, rfl⟩, by decide⟩
  · intro k hk
    simp only [segDemo] at hk
    split at hk
    · assumption
    · cases hk
  · intro g hg
    simp only [segDemo] at hg
    split at hg
    · assumption
    · cases hg
  · intro h p x hx
    simp only [segDemo] at hx
    split at hx
    · simp only [Option.some.injEq, Prod.mk.injEq] at hx; rw [← hx.2]; exact ⟨by simp, by intro ps e; cases e⟩
    · split at hx
      · simp only [Option.some.injEq, Prod.mk.injEq] at hx; rw [← hx.2]; exact ⟨by simp, by intro ps e; cases e⟩
      · cases hx
  · intro t c hc; cases hc
  · intro t c hc; cases hc


set_option maxRecDepth 100000 in
/-- the hypotheses of `lock_is_mutex_partial` / `same_segment_same_bytes` are met by the model's own states -/
example :
    let g0 := ((G.init id).call 0 (.newShm 0 0 100 false)).call 1 (.newShm 1 0 0 false)
    let g := g0.start 1 (.lock 1)
    (∃ m h, g.calls 1 = some (.lockOp 1 m { api := .acquire, h := h, pc := .op }) ∧ h.hdl = some 0) ∧ (g.os.sems 0).alive = true ∧
    (∃ x y, findAtt (g0.os.procs 0) 1 = some x ∧ findAtt (g0.os.procs 1) 1 = some y ∧ x.seg = y.seg) ∧
    (g0.os.store 0 1 5 9).isSome = true := by
  refine ⟨⟨_, _, rfl, rfl⟩, by decide, ⟨_, _, rfl, rfl, rfl⟩, by decide⟩

end PV.SysV.C07

import PV.Lemmas.IPCSysV
/-!
# C07, System V variant — shared memory (`pshm-sysv.c` + `psemaphore-sysv.c` + key files over `PV.SysV.OS`)
-/
namespace PV.SysV.C07
open PV.SysV PV.Generated.IPCSysV

/-! ## 0. extracted facts -/

theorem source_as_modelled :
    hasFlag (shmgetExclFlags ||| shmPermRW) IPC_CREAT = true ∧ hasFlag (shmgetExclFlags ||| shmPermRW) IPC_EXCL = true ∧
    hasFlag (shmgetExclFlags ||| shmPermRO) IPC_CREAT = true ∧ hasFlag (shmgetExclFlags ||| shmPermRO) IPC_EXCL = true ∧
    hasFlag (shmgetPlainFlags ||| shmPermRW) IPC_CREAT = false ∧ hasFlag (shmgetPlainFlags ||| shmPermRO) IPC_CREAT = false ∧
    shmgetPlainSize = 0 ∧ shmgetExistsErrno = EEXIST ∧ shmStatCmd = IPC_STAT ∧ shmCleanStatCmd = IPC_STAT ∧ shmRmidCmd = IPC_RMID ∧
    IPC_STAT ≠ IPC_RMID ∧ shmatFlagsRO = SHM_RDONLY ∧ shmatFlagsRW = 0 ∧ shmLockInit = 1 ∧
    sites_pp_shm_create_handle = ["p_ipc_unix_create_key_file", "pp_shm_clean_handle", "p_ipc_unix_get_ftok_key", "pp_shm_clean_handle",
      "shmget", "shmget", "pp_shm_clean_handle", "shmctl", "pp_shm_clean_handle", "shmat", "pp_shm_clean_handle", "p_semaphore_new", "pp_shm_clean_handle"] ∧
    sites_pp_shm_clean_handle = ["shmdt", "shmctl", "shmctl", "unlink", "p_semaphore_free"] ∧
    sites_p_shm_new = ["p_shm_free", "pp_shm_create_handle", "p_shm_free"] ∧
    sites_p_shm_take_ownership = ["p_semaphore_take_ownership"] := by decide

/-! ## 1. same bytes through all attachments; sizes -/

/-- a store through one attachment of a segment is what a load through ANY attachment of the same segment (any
    process) returns at that offset -/
theorem same_segment_same_bytes (os os' : OS) (p q : Pid) (a a' off : Nat) (b : UInt8) (x y : Att)
    (hx : findAtt (os.procs p) a = some x) (hy : findAtt (os.procs q) a' = some y) (hs : x.seg = y.seg)
    (hst : os.store p a off b = some os') : os'.load q a' off = .val b := by
  simp only [OS.store, hx] at hst
  split at hst
  · rename_i hc
    simp only [Option.some.injEq] at hst
    subst hst
    simp [OS.load, OS.setSeg, hy, hs.symm, hc.1]
  · cases hst

/-- the size `p_shm_get_size` reports is never larger than the segment (`shm_segsz` from IPC_STAT): every offset below
    it is inside the segment; it is the request when that is non-zero and smaller, else the segment's size -/
theorem reported_size (req sz : Nat) :
    clampSize req sz ≤ sz ∧ (req ≠ 0 → req < sz → clampSize req sz = req) ∧ (req = 0 ∨ sz ≤ req → clampSize req sz = sz) := by
  unfold clampSize
  refine ⟨?_, ?_, ?_⟩
  · split <;> rename_i h <;> simp at h <;> omega
  · intro h1 h2; simp [h1, h2]
  · intro h; split <;> rename_i h' <;> simp at h' <;> omega

/-! ## 2. the lock -/

/- FULL STATEMENT (false of the code, finding F16 — see `lock_is_mutex_false`):
   theorem lock_is_mutex : lock / unlock through all live handles of one segment behave as one mutex: `p_shm_lock`
   returns only by taking the single unit of the segment's lock set.
   Excluded region of the partial theorem: the lock set of the handle was removed (an owner's free ran IPC_RMID on it)
   since the handle was opened: `(g.os.sems i).alive = false`. -/

/-- `p_shm_lock` through a handle whose lock set is alive returns exactly at a `semop` that found the unit and takes
    it; a step that does not return changes nothing: with value ≤ 1 at most one holder -/
theorem lock_is_mutex_partial (g : G) (t : Tid) (hid : Hid) (m : PShm) (h : PSem) (rc : Bool) (i : SemId)
    (hc : g.calls t = some (.lockOp hid m { api := .acquire, h := h, pc := .op, recreated := rc }))
    (hi : h.hdl = some i) (hl : (g.os.sems i).alive = true) :
    ((g.step t false).calls t = none ↔ 0 < (g.os.sems i).value) ∧
    ((g.step t false).calls t = none → (g.os.sems i).value = ((g.step t false).os.sems i).value + 1 ∧ (g.step t false).ret t = some .unit) ∧
    ((g.step t false).calls t ≠ none → (g.step t false).os = g.os) := by
  by_cases hv : (g.os.sems i).value = 0 <;>
    simp [G.step, hc, Call.next, Call.after, SemSt.next, SemSt.after, SemSt.buf, sysStep, Sys.interruptible, semopF,
      semAlive, hi, hl, hv, acquireBuf, hasFlag, SEM_UNDO, G.setCall, G.setRet, G.setHandle, OS.setSem, retOf]
  omega

/-- the recorded history of F16 up to the second lock -/
def f16Before : G :=
  ((((((G.init id).call 0 (.newShm 0 0 100 false)).call 1 (.newShm 1 0 0 false)).call 2 (.newShm 2 0 0 false)).call 0 (.own 0)).call 1 (.lock 1)).call 0 (.free 0)

def lockHdl (g : G) (h : Hid) : Option SemId :=
  match g.hs h with
  | some (_, .shm x) => x.sem.bind (·.hdl)
  | _ => none

set_option maxRecDepth 100000 in
/-- negation of `lock_is_mutex` on the recorded witness `0 new-shm 0 m0 100; 1 new-shm 1 m0 0; 2 new-shm 2 m0 0;
    0 own 0; 1 lock 1; 0 free 0; 2 lock 2`: handles 1 and 2 were opened on one lock set (id 0); handle 1 holds the
    lock (value 0) when the owner's free removes the set; `p_shm_lock` through handle 2 then returns TRUE on a NEW set
    (id 1): two holders -/
theorem lock_is_mutex_false :
    lockHdl ((((G.init id).call 0 (.newShm 0 0 100 false)).call 1 (.newShm 1 0 0 false)).call 2 (.newShm 2 0 0 false)) 1 = some 0 ∧
    lockHdl ((((G.init id).call 0 (.newShm 0 0 100 false)).call 1 (.newShm 1 0 0 false)).call 2 (.newShm 2 0 0 false)) 2 = some 0 ∧
    f16Before.ret 1 = some .unit ∧ (f16Before.os.sems 0).alive = false ∧ (f16Before.os.sems 0).value = 0 ∧
    (f16Before.call 2 (.lock 2)).ret 2 = some .unit ∧ lockHdl (f16Before.call 2 (.lock 2)) 2 = some 1 ∧
    lockHdl (f16Before.call 2 (.lock 2)) 1 = some 0 := by decide

/-! ## 3. owner free, then a fresh segment -/

/- FULL STATEMENT (false of the code when inode numbers are reused, finding F15 — see `owner_free_fresh_false`):
   theorem owner_free_fresh : after `take_ownership; free` of a handle the next `p_shm_new (name, size)` creates a
   fresh, zeroed segment of exactly `size` bytes.
   Excluded region of the partial theorem: another handle is still attached at the owner's free AND the file system
   hands the freed inode number to the next key file (`OS.reuse = true`). -/

/-- the recorded history of F15, parameterised by the inode policy -/
def f15 (reuse : Bool) : G :=
  ((((((G.init id reuse).call 0 (.newShm 0 0 100 false)).call 0 (.wr 0 0 7)).call 1 (.newShm 1 0 0 false)).call 1 (.own 1)).call 1 (.free 1)).call 2
    (.newShm 2 0 200 false)

def sizeOf (g : G) (h : Hid) : Option Nat :=
  match g.hs h with
  | some (_, .shm x) => some x.size
  | _ => none

def segOf (g : G) (h : Hid) : Option SegId :=
  match g.hs h with
  | some (p, .shm x) => ((addrOpt x.addr).bind fun a => findAtt (g.os.procs p) a).map (·.seg)
  | _ => none

set_option maxRecDepth 100000 in
/-- without inode reuse (the excluded region's second half absent) the recorded history DOES give a fresh zeroed segment
    of the requested size, although handle 0 is still attached to the old one -/
theorem owner_free_fresh_partial :
    sizeOf (f15 false) 2 = some 200 ∧ segOf (f15 false) 2 = some 1 ∧ segOf (f15 false) 0 = some 0 ∧
    ((f15 false).call 2 (.rd 2 0)).ret 2 = some (.byte 0) := by decide

set_option maxRecDepth 100000 in
/-- negation on the recorded witness `0 new-shm 0 m0 100; 0 wr 0 0 7; 1 new-shm 1 m0 0; 1 own 1; 1 free 1;
    2 new-shm 2 m0 200; 2 rd 2 0` with inode reuse: the new handle reports the OLD size 100, is attached to the OLD
    segment (id 0, the one handle 0 still maps) and reads the old byte 7 -/
theorem owner_free_fresh_false :
    sizeOf (f15 true) 2 = some 100 ∧ segOf (f15 true) 2 = some 0 ∧ segOf (f15 true) 0 = some 0 ∧
    ((f15 true).call 2 (.rd 2 0)).ret 2 = some (.byte 7) := by decide

/-! ## 4. sizes, clean-up and crash recovery — ENUMERATED FINITE SCOPE (evaluation of the executable model) -/

def shmOf (g : G) (n : Nat) : Option SegId := (g.os.files (.shm n)).bind fun i => g.os.shmKeys (ftokOf i)

def aliveSegs (g : G) : List SegId := (List.range g.os.nextSeg).filter fun i => (g.os.segs i).alive
def aliveSems (g : G) : List SemId := (List.range g.os.nextSem).filter fun i => (g.os.sems i).alive

set_option maxRecDepth 100000 in
/-- (scope: creator sizes 1, 64, 100; follower requests 0, 1, 50, 100, 200; readonly or not) the creator reports exactly
    its size, a follower the request when non-zero and smaller, else the creator's; both are attached to one segment,
    share one lock set; a store of the creator is read by the follower; after both are freed (last one as owner)
    nothing is left: no segment, no set, no key file of the segment -/
theorem sizes_and_cleanup_scope :
    (List.all [false, true] fun r => List.all [1, 64, 100] fun c => List.all [0, 1, 50, 100, 200] fun q => List.all [false, true] fun ro =>
      let g1 := (G.init id r).call 0 (.newShm 0 0 c false)
      let g2 := g1.call 1 (.newShm 1 0 q ro)
      let g3 := g2.call 0 (.wr 0 0 9)
      let g4 := ((g3.call 1 (.free 1)).call 0 (.own 0)).call 0 (.free 0)
      decide (sizeOf g1 0 = some c) && decide (sizeOf g2 1 = some (if q = 0 ∨ c ≤ q then c else q)) &&
      decide (segOf g2 0 = segOf g2 1) && decide ((segOf g2 0).isSome) && decide (lockHdl g2 0 = lockHdl g2 1) && decide ((lockHdl g2 0).isSome) &&
      decide ((g3.call 1 (.rd 1 0)).ret 1 = some (.byte 9)) &&
      decide (aliveSegs g4 = []) && decide (aliveSems g4 = []) && decide (g4.os.files (.shm 0) = none)) = true := by
  decide

def crashAt (g : G) (tc : Tid) (op : Op) (j : Nat) : G :=
  ((List.replicate j (Action.step tc false)).foldl exec (g.start tc op)).kill (g.pidOf tc)

/-- the documented recovery: open (size 0), take ownership, free, create (thread / process 2) -/
def recover (g : G) (size : Nat) : G :=
  (((g.call 2 (.newShm 8 0 0 false)).call 2 (.own 8)).call 2 (.free 8)).call 2 (.newShm 9 0 size false)

/-- clean: the name is bound to a live zeroed segment of exactly `size` bytes with a lock of value 1 which a later opener
    joins; no other segment or set is alive -/
def cleanAfter (g : G) (size : Nat) : Bool :=
  decide (sizeOf g 9 = some size) && decide ((shmOf g 0).isSome) && decide (shmOf g 0 = segOf g 9) &&
  decide ((shmOf g 0).map (fun s => (g.os.segs s).bytes) = some (List.replicate size 0)) &&
  (let g' := g.call 3 (.newShm 10 0 0 false)
   decide (segOf g' 10 = segOf g 9) && decide (lockHdl g' 10 = lockHdl g 9) && decide ((g'.call 3 (.lock 10)).ret 3 = some .unit)) &&
  decide ((aliveSegs g).length = 1) && decide ((aliveSems g).length = 1)

set_option maxRecDepth 100000 in
/-- (scope: crash at EVERY step index j ≤ 16 of `p_shm_new` on a fresh name and of the free of the last handle / of an owner
    whose segment nobody else maps; no inode reuse) the documented recovery ends in a clean state.  With another process
    still attached the old segment lives on until that process detaches (System V contract) — and with inode reuse the
    recovery's create joins it: finding F15. -/
theorem crash_recoverable_scope :
    (List.all (List.range 17) fun j =>
      let fresh := G.init id
      let one := (G.init id).call 0 (.newShm 0 0 64 false)
      cleanAfter (recover (crashAt fresh 0 (.newShm 0 0 64 false) j) 32) 32 &&
      cleanAfter (recover (crashAt one 0 (.free 0) j) 32) 32 &&
      cleanAfter (recover (crashAt (one.call 0 (.own 0)) 0 (.free 0) j) 32) 32 &&
      cleanAfter (recover (crashAt (one.call 0 (.lock 0)) 0 (.unlock 0) j) 32) 32) = true := by
  decide

/-! ## non-vacuity -/

set_option maxRecDepth 100000 in
/-- the hypotheses of `lock_is_mutex_partial` / `same_segment_same_bytes` are met by the model's own states -/
example :
    let g0 := ((G.init id).call 0 (.newShm 0 0 100 false)).call 1 (.newShm 1 0 0 false)
    let g := g0.start 1 (.lock 1)
    (∃ m h, g.calls 1 = some (.lockOp 1 m { api := .acquire, h := h, pc := .op }) ∧ h.hdl = some 0) ∧ (g.os.sems 0).alive = true ∧
    (∃ x y, findAtt (g0.os.procs 0) 1 = some x ∧ findAtt (g0.os.procs 1) 1 = some y ∧ x.seg = y.seg) ∧
    (g0.os.store 0 1 5 9).isSome = true := by
  refine ⟨⟨_, _, rfl, rfl⟩, by decide, ⟨_, _, rfl, rfl, rfl⟩, by decide⟩

end PV.SysV.C07

import PV.Lemmas.Tree.AVL
import PV.Lemmas.Tree.RB
import PV.Generated.TreeLoops
/-!
# C13 — AVL and red-black trees stay balanced after every operation

Reachable = produced from the empty tree by any sequence of calls.  The bounds are in exact integer
form: AVL `fib (h+2) ≤ n+1` (which is the 1.4405·log2(n+2) bound), red-black `2^bh ≤ n+1 ∧ h ≤ 2·bh`
(hence `h ≤ 2·log2(n+1)`).  A lookup compares against at most `h` keys.
The op sequences include inserts whose node allocation fails (`Op.insf`, a step kind of `avlRun` / `rbRun`): such a call
leaves the tree literally as it was (`failed_insert_is_identity`, C12), so no balance factor or colour is half-updated.
-/
namespace PV.Tree
open Std

variable {κ ν : Type} {cmp : κ → κ → Ordering}

theorem avl_reachable_balanced [TransCmp cmp] (ops : List (Op κ ν)) (s : AT κ ν × Int) (outs : List (Out κ ν))
    (h : avlRun cmp (.nil, 0) ops = some (s, outs)) : s.1.Inv := by
  obtain ⟨s', h1, _, h3⟩ := avlRun_refines (cmp := cmp) ops .nil 0 []
    (by simp [BT.Ordered, AT.toBT, BT.toList, SM.Sorted]) (by simp [AT.Inv]) rfl rfl
  rw [h1] at h
  cases h
  exact h3

theorem avl_height_bound (t : AT κ ν) (hi : t.Inv) : fib (t.height + 2) ≤ t.size + 1 := AT.fib_le_size t hi

theorem rb_reachable_balanced [TransCmp cmp] (ops : List (Op κ ν)) (s : RT κ ν × Int) (outs : List (Out κ ν))
    (h : rbRun cmp (.nil, 0) ops = some (s, outs)) : s.1.Inv := by
  obtain ⟨s', h1, _, h3⟩ := rbRun_refines (cmp := cmp) ops .nil 0 []
    (by simp [BT.Ordered, RT.toBT, BT.toList, SM.Sorted]) (by simp [RT.Inv, RT.isBlack, RT.Bal]) rfl rfl
  rw [h1] at h
  cases h
  exact h3

theorem rb_height_bound (t : RT κ ν) (hi : t.Inv) : 2 ^ t.bh ≤ t.size + 1 ∧ t.height ≤ 2 * t.bh :=
  ⟨RT.pow_bh_le_size t hi.2, RT.height_le_two_bh t hi⟩

/-- `2^⌈h/2⌉ ≤ n + 1`, i.e. `h ≤ 2·log2 (n+1)` -/
theorem rb_height_log (t : RT κ ν) (hi : t.Inv) : 2 ^ ((t.height + 1) / 2) ≤ t.size + 1 := by
  have ⟨h1, h2⟩ := rb_height_bound t hi
  exact Nat.le_trans (Nat.pow_le_pow_right (by decide) (by omega)) h1

theorem lookup_cost (t : BT κ ν) (k : κ) : (t.lookupPath cmp k).length ≤ t.height :=
  BT.lookupPath_le_height t k

/-- non-vacuity for histories with failing inserts: reachable, and balanced -/
example : ∃ s outs, rbRun (κ := Nat) (ν := Nat) compare (.nil, 0) [.ins 2 20, .insf 1 10, .ins 3 30, .insf 3 31, .ins 4 40, .rem 2] = some (s, outs) ∧ s.1.Inv := by
  obtain ⟨s, h1, _, h3⟩ := rbRun_refines (cmp := (compare : Nat → Nat → Ordering)) (ν := Nat)
    [.ins 2 20, .insf 1 10, .ins 3 30, .insf 3 31, .ins 4 40, .rem 2] .nil 0 []
    (by simp [BT.Ordered, RT.toBT, BT.toList, SM.Sorted]) (by simp [RT.Inv, RT.isBlack, RT.Bal]) rfl rfl
  exact ⟨s, _, h1, h3⟩

example : (AT.node (.node .nil 1 1 0 .nil) 2 2 1 .nil : AT Nat Nat).Inv := by
  simp [AT.Inv, AT.height, AT.toBT, BT.height]

end PV.Tree

import PV.Props.C12
import PV.Lemmas.Tree.Natural
/-!
# C14 — every key/value is destroyed exactly once, at the call that takes it out of the tree

The destroy log of every call is part of the outputs that C12 proves equal to the spec's
(`Out.ins _ d`, `Out.rem _ _ d`, `Out.cleared _ d`), and the spec destroys exactly
* on insert: the pair that was stored under an equal key (`SM.find`), nothing otherwise;
* on remove: the pair stored under that key, nothing when absent;
* on clear / free: everything stored.
What remains is the bookkeeping over whole histories.  Histories may contain inserts whose node allocation fails
(`Op.insf`): what entered the tree is `entered cmp l ops`, which follows the spec state — such an insert hands its pair
over only on the replace path (`failed_insert_owns_nothing`; `entered_eq_inserted` for histories without them).

Last clause ("without notifiers the tree never frees or alters user keys and values"), for the model: the operations are
NATURAL in the key and value objects (`run_natural`, `run_natural_values`): renaming every value object by any function
`g` (and every key object by any comparator-preserving `h`) commutes with every history, for the spec and for the three
variants — same shape, balance factors / colours, counts, flags, log order; the objects renamed.  So the operations never
look inside a value, never change one, never make one up; of a key they learn only what the comparator says.
`values_never_altered`: every object stored or shown after any history is literally one of the objects the caller passed.
-/
namespace PV.Tree
open Std

variable {κ ν : Type} {cmp : κ → κ → Ordering}

/-- over any history, *destroyed so far* together with *still stored* is exactly *inserted so far*
    (as multisets): nothing is destroyed twice, nothing stored was destroyed, nothing is lost -/
theorem spec_destroyed_perm [TransCmp cmp] (ops : List (Op κ ν)) (l : List (κ × ν)) (hs : SM.Sorted cmp l) :
    (destroyed (specRun cmp l ops).2 ++ (specRun cmp l ops).1).Perm (entered cmp l ops ++ l) := by
  induction ops generalizing l with
  | nil => simp [specRun, destroyed, entered]
  | cons op ops ih =>
    cases op with
    | ins k v =>
      have h := ih (SM.insert cmp l k v) (SM.sorted_insert hs k v)
      simp only [specRun, specStep, destroyed, entered, List.append_assoc]
      refine (h.append_left _).trans ?_
      refine List.perm_append_comm_assoc _ _ _ |>.trans ?_
      refine ((SM.perm_insert hs k v).append_left _).trans ?_
      exact List.perm_middle
    | insf k v =>
      by_cases hf : (SM.find cmp l k).isSome = true
      · -- replace path: exactly the `ins` case
        have h := ih (SM.insert cmp l k v) (SM.sorted_insert hs k v)
        simp only [specRun, specStep, destroyed, entered, hf, if_true, List.append_assoc, List.singleton_append]
        refine (h.append_left _).trans ?_
        refine List.perm_append_comm_assoc _ _ _ |>.trans ?_
        refine ((SM.perm_insert hs k v).append_left _).trans ?_
        exact List.perm_middle
      · -- new key: nothing entered, nothing destroyed, nothing stored changed
        have h := ih l hs
        have hf' : (SM.find cmp l k).isSome = false := by simpa using hf
        simpa only [specRun, specStep, destroyed, entered, hf', Bool.false_eq_true, if_false, List.nil_append] using h
    | rem k =>
      have h := ih (SM.erase cmp l k) (SM.sorted_erase hs k)
      simp only [specRun, specStep, destroyed, entered, List.append_assoc]
      refine (h.append_left _).trans ?_
      refine List.perm_append_comm_assoc _ _ _ |>.trans ?_
      exact (SM.perm_erase hs k).append_left _
    | get k => simpa only [specRun, specStep, destroyed, entered] using ih l hs
    | each j => simpa only [specRun, specStep, destroyed, entered] using ih l hs
    | clear =>
      have h := ih [] (by simp [SM.Sorted])
      simp only [specRun, specStep, destroyed, entered, List.append_assoc]
      rw [List.append_nil] at h
      exact (h.append_left l).trans List.perm_append_comm
    | count => simpa only [specRun, specStep, destroyed, entered] using ih l hs

/-- the same for the three implementations, from the empty tree -/
theorem bst_destroyed_perm [TransCmp cmp] (ops : List (Op κ ν)) :
    (destroyed (bstRun cmp (.nil, 0) ops).2 ++ (bstRun cmp (.nil, 0) ops).1.1.toList).Perm (entered cmp [] ops) := by
  have ⟨h1, h2⟩ := bst_run_refines (cmp := cmp) ops
  rw [h1, h2]
  simpa using spec_destroyed_perm (cmp := cmp) ops [] (by simp [SM.Sorted])

theorem avl_destroyed_perm [TransCmp cmp] (ops : List (Op κ ν)) :
    ∃ s outs, avlRun cmp (.nil, 0) ops = some (s, outs) ∧ (destroyed outs ++ s.1.toList).Perm (entered cmp [] ops) := by
  obtain ⟨s, h1, h2⟩ := avl_run_refines (cmp := cmp) ops
  refine ⟨s, _, h1, ?_⟩
  rw [h2]
  simpa using spec_destroyed_perm (cmp := cmp) ops [] (by simp [SM.Sorted])

theorem rb_destroyed_perm [TransCmp cmp] (ops : List (Op κ ν)) :
    ∃ s outs, rbRun cmp (.nil, 0) ops = some (s, outs) ∧ (destroyed outs ++ s.1.toList).Perm (entered cmp [] ops) := by
  obtain ⟨s, h1, h2⟩ := rb_run_refines (cmp := cmp) ops
  refine ⟨s, _, h1, ?_⟩
  rw [h2]
  simpa using spec_destroyed_perm (cmp := cmp) ops [] (by simp [SM.Sorted])

/-- for a history without failing inserts, what entered is simply every pair given to an insert, in call order (the form
    this invariant had before `Op.insf` existed) -/
theorem entered_eq_inserted (ops : List (Op κ ν)) (l : List (κ × ν)) (h : ∀ k v, Op.insf k v ∉ ops) :
    entered cmp l ops = inserted ops := by
  induction ops generalizing l with
  | nil => rfl
  | cons op ops ih =>
    have ih' := fun l' => ih l' (fun k v hm => h k v (List.mem_cons_of_mem _ hm))
    cases op with
    | insf k v => exact absurd List.mem_cons_self (h k v)
    | ins k v => simp only [entered, inserted, ih']
    | rem k => simp only [entered, inserted, ih']
    | get k => simp only [entered, inserted, ih']
    | each j => simp only [entered, inserted, ih']
    | clear => simp only [entered, inserted, ih']
    | count => simp only [entered, inserted, ih']

/-- **an insert that fails for lack of memory takes nothing and destroys nothing**: when no equal key is stored and the
    node allocation fails, the pair the caller passed does not enter the tree (it is in no later destroy log unless it is
    inserted again: `entered` does not list it), no stored object is handed to a notifier at that call, and what is stored
    is unchanged — in the spec and, literally (same tree, same count), in all three variants.  The caller still owns the
    key and the value it passed. -/
theorem failed_insert_owns_nothing (k : κ) (v : ν) (l : List (κ × ν)) (ops : List (Op κ ν))
    (hf : (SM.find cmp l k).isSome = false) :
    entered cmp l (.insf k v :: ops) = entered cmp l ops ∧
    destroyed (specRun cmp l (.insf k v :: ops)).2 = destroyed (specRun cmp l ops).2 ∧
    (specRun cmp l (.insf k v :: ops)).1 = (specRun cmp l ops).1 ∧
    (∀ s : BT κ ν × Int, (s.1.lookup cmp k).isSome = false → bstStep cmp s (.insf k v) = (s, .ins s.2 [])) ∧
    (∀ s : AT κ ν × Int, (s.1.toBT.lookup cmp k).isSome = false → avlStep cmp s (.insf k v) = some (s, .ins s.2 [])) ∧
    (∀ s : RT κ ν × Int, (s.1.toBT.lookup cmp k).isSome = false → rbStep cmp s (.insf k v) = some (s, .ins s.2 [])) := by
  have e : specStep cmp l (.insf k v) = (l, .ins l.length []) := (failed_insert_is_identity (cmp := cmp) k v).1 l hf
  have h2 := failed_insert_is_identity (cmp := cmp) k v
  refine ⟨?_, ?_, ?_, h2.2.1, h2.2.2.1, h2.2.2.2⟩
  · simp only [entered, hf, Bool.false_eq_true, if_false, List.nil_append, e]
  · simp only [specRun, e, destroyed, List.nil_append]
  · simp only [specRun, e]

/-! ### the tree never alters or fabricates user keys and values -/
section natural
variable {κ' ν' : Type} {cmp' : κ' → κ' → Ordering} {h : κ → κ'} {g : ν → ν'}

/-- **naturality in the key and value objects.**  `h` renames key objects and preserves the comparator, `g` is ANY function on
    value objects.  Running the renamed history on the renamed state gives the renamed result — for the spec and for the
    plain BST literally, for AVL and red-black including whether the C code would dereference NULL (`none`).  `map` keeps
    the shape, the stored balance factors / colours, `nnodes`, the flags and the order of every destroy log and visit
    list; it only renames the objects. -/
theorem run_natural (hc : ∀ a b, cmp' (h a) (h b) = cmp a b) (ops : List (Op κ ν)) :
    (∀ l : List (κ × ν), specRun cmp' (mapPairs h g l) (ops.map (Op.map h g)) =
      (mapPairs h g (specRun cmp l ops).1, (specRun cmp l ops).2.map (Out.map h g))) ∧
    (∀ s : BT κ ν × Int, bstRun cmp' (s.1.map h g, s.2) (ops.map (Op.map h g)) =
      (((bstRun cmp s ops).1.1.map h g, (bstRun cmp s ops).1.2), (bstRun cmp s ops).2.map (Out.map h g))) ∧
    (∀ s : AT κ ν × Int, avlRun cmp' (s.1.map h g, s.2) (ops.map (Op.map h g)) =
      (avlRun cmp s ops).map fun r => ((r.1.1.map h g, r.1.2), r.2.map (Out.map h g))) ∧
    (∀ s : RT κ ν × Int, rbRun cmp' (s.1.map h g, s.2) (ops.map (Op.map h g)) =
      (rbRun cmp s ops).map fun r => ((r.1.1.map h g, r.1.2), r.2.map (Out.map h g))) :=
  ⟨fun l => specRun_map hc l ops, fun s => bstRun_map hc s ops, fun s => avlRun_map hc s ops, fun s => rbRun_map hc s ops⟩

/-- the same for a single call (any state, any operation) -/
theorem step_natural (hc : ∀ a b, cmp' (h a) (h b) = cmp a b) (op : Op κ ν) :
    (∀ l : List (κ × ν), specStep cmp' (mapPairs h g l) (op.map h g) =
      (mapPairs h g (specStep cmp l op).1, (specStep cmp l op).2.map h g)) ∧
    (∀ s : BT κ ν × Int, bstStep cmp' (s.1.map h g, s.2) (op.map h g) =
      (((bstStep cmp s op).1.1.map h g, (bstStep cmp s op).1.2), (bstStep cmp s op).2.map h g)) ∧
    (∀ s : AT κ ν × Int, avlStep cmp' (s.1.map h g, s.2) (op.map h g) =
      (avlStep cmp s op).map fun r => ((r.1.1.map h g, r.1.2), r.2.map h g)) ∧
    (∀ s : RT κ ν × Int, rbStep cmp' (s.1.map h g, s.2) (op.map h g) =
      (rbStep cmp s op).map fun r => ((r.1.1.map h g, r.1.2), r.2.map h g)) :=
  ⟨fun l => specStep_map hc l op, fun s => bstStep_map hc s op, fun s => avlStep_map hc s op, fun s => rbStep_map hc s op⟩

/-- **values are only moved around**: the keys and the comparator untouched (`h = id`), `g` any function on values, no
    hypothesis at all -/
theorem run_natural_values (g : ν → ν') (ops : List (Op κ ν)) :
    (∀ l : List (κ × ν), specRun cmp (mapPairs id g l) (ops.map (Op.map id g)) =
      (mapPairs id g (specRun cmp l ops).1, (specRun cmp l ops).2.map (Out.map id g))) ∧
    (∀ s : BT κ ν × Int, bstRun cmp (s.1.map id g, s.2) (ops.map (Op.map id g)) =
      (((bstRun cmp s ops).1.1.map id g, (bstRun cmp s ops).1.2), (bstRun cmp s ops).2.map (Out.map id g))) ∧
    (∀ s : AT κ ν × Int, avlRun cmp (s.1.map id g, s.2) (ops.map (Op.map id g)) =
      (avlRun cmp s ops).map fun r => ((r.1.1.map id g, r.1.2), r.2.map (Out.map id g))) ∧
    (∀ s : RT κ ν × Int, rbRun cmp (s.1.map id g, s.2) (ops.map (Op.map id g)) =
      (rbRun cmp s ops).map fun r => ((r.1.1.map id g, r.1.2), r.2.map (Out.map id g))) :=
  run_natural (cmp := cmp) (cmp' := cmp) (h := id) (g := g) (fun _ _ => rfl) ops

end natural

/-- **the tree never alters or fabricates a user object**: after any history from the empty tree, every key object and
    every value object that is stored in the tree, returned by a lookup, shown to a `foreach` callback or handed to a destroy
    notifier is literally one of the key objects / value objects the caller passed in that history (`passedVals`: the values
    given to `p_tree_insert`) — for the spec, the plain BST, and for every completed AVL / red-black run (all of them:
    `avl_run_refines`, `rb_run_refines`).  No comparator law is needed. -/
theorem values_never_altered (ops : List (Op κ ν)) :
    AllObjects (· ∈ passedKeys ops) (· ∈ passedVals ops) (specRun cmp [] ops).1 (specRun cmp [] ops).2 ∧
    AllObjects (· ∈ passedKeys ops) (· ∈ passedVals ops) (bstRun cmp (.nil, 0) ops).1.1.toList (bstRun cmp (.nil, 0) ops).2 ∧
    (∀ s outs, avlRun cmp (.nil, 0) ops = some (s, outs) →
      AllObjects (· ∈ passedKeys ops) (· ∈ passedVals ops) s.1.toList outs) ∧
    (∀ s outs, rbRun cmp (.nil, 0) ops = some (s, outs) →
      AllObjects (· ∈ passedKeys ops) (· ∈ passedVals ops) s.1.toList outs) :=
  ⟨specRun_allObjects _ _ ops (passed_self ops), bstRun_allObjects _ _ ops (passed_self ops),
   avlRun_allObjects _ _ ops (passed_self ops), rbRun_allObjects _ _ ops (passed_self ops)⟩

/-- more generally, any property of the objects the caller passed (e.g. "is a live allocation of the caller", "has content
    c") holds of everything stored and shown -/
theorem objects_keep_any_property (P : κ → Prop) (Q : ν → Prop) (ops : List (Op κ ν))
    (H : ∀ op ∈ ops, (∀ k ∈ op.keys, P k) ∧ ∀ v ∈ op.vals, Q v) :
    AllObjects P Q (specRun cmp [] ops).1 (specRun cmp [] ops).2 ∧
    AllObjects P Q (bstRun cmp (.nil, 0) ops).1.1.toList (bstRun cmp (.nil, 0) ops).2 ∧
    (∀ s outs, avlRun cmp (.nil, 0) ops = some (s, outs) → AllObjects P Q s.1.toList outs) ∧
    (∀ s outs, rbRun cmp (.nil, 0) ops = some (s, outs) → AllObjects P Q s.1.toList outs) :=
  ⟨specRun_allObjects P Q ops H, bstRun_allObjects P Q ops H, avlRun_allObjects P Q ops H, rbRun_allObjects P Q ops H⟩

/-- non-vacuity of `run_natural`: a renaming of keys that is not the identity and preserves the comparator (shift by one), with
    a non-injective renaming of values -/
example : ∀ a b : Nat, compare (a + 1) (b + 1) = compare a b := by
  intro a b; simp [compare, compareOfLessAndEq]

/-- non-vacuity: a history with rotations, a replace, a remove of an inner node and a clear, on the red-black tree: the values
    shown (destroyed, looked up, visited) and the values renamed by `g = (· % 10)` -/
example :
    ((rbRun (κ := Nat) (ν := Nat) compare (.nil, 0)
        [.ins 1 11, .ins 2 12, .ins 3 13, .ins 2 22, .get 3, .rem 2, .each 0, .clear]).map
      fun r => (r.1.1.toList, r.2.flatMap Out.vals)) = some ([], [12, 13, 22, 11, 13, 11, 13]) ∧
    ((rbRun (κ := Nat) (ν := Nat) compare (.nil, 0)
        ([.ins 1 11, .ins 2 12, .ins 3 13, .ins 2 22, .get 3, .rem 2, .each 0, .clear].map (Op.map id (· % 10)))).map
      fun r => (r.1.1.toList, r.2.flatMap Out.vals)) = some ([], [2, 3, 2, 1, 3, 1, 3]) ∧
    passedVals (κ := Nat) (ν := Nat) [.ins 1 11, .ins 2 12, .ins 3 13, .ins 2 22, .get 3, .rem 2, .each 0, .clear] =
      [11, 12, 13, 22] := by
  decide

/-- so when the inserted objects are pairwise distinct, no object is destroyed twice and no
    destroyed object is still stored -/
theorem exactly_once_of_perm {α : Type} {d s i : List α} (h : (d ++ s).Perm i) (hi : i.Nodup) :
    d.Nodup ∧ ∀ x ∈ d, x ∉ s := by
  have hn : (d ++ s).Nodup := h.nodup_iff.mpr hi
  have := List.nodup_append.mp hn
  exact ⟨this.1, fun x hx hs => (this.2.2 x hx x hs) rfl⟩

/-- a history that ends with clear/free leaves nothing stored: everything inserted was destroyed once -/
theorem spec_clear_destroys_all (l : List (κ × ν)) :
    specStep cmp l .clear = ([], .cleared 0 l) := rfl

/-- non-vacuity: a failing insert of a new key enters nothing; of a stored key it enters its pair and the old pair is destroyed -/
example : entered (κ := Nat) (ν := Nat) compare [] [.ins 2 20, .insf 1 10, .insf 2 21] = [(2, 20), (2, 21)] ∧
    destroyed (specRun (κ := Nat) (ν := Nat) compare [] [.ins 2 20, .insf 1 10, .insf 2 21]).2 = [(2, 20)] := by
  decide

end PV.Tree

import PV.Props.C12
/-!
# C14 — every key/value is destroyed exactly once, at the call that takes it out of the tree

The destroy log of every call is part of the outputs that C12 proves equal to the spec's
(`Out.ins _ d`, `Out.rem _ _ d`, `Out.cleared _ d`), and the spec destroys exactly
* on insert: the pair that was stored under an equal key (`SM.find`), nothing otherwise;
* on remove: the pair stored under that key, nothing when absent;
* on clear / free: everything stored.
What remains is the bookkeeping over whole histories.
-/
namespace PV.Tree
open Std

variable {κ ν : Type} {cmp : κ → κ → Ordering}

/-- over any history, *destroyed so far* together with *still stored* is exactly *inserted so far*
    (as multisets): nothing is destroyed twice, nothing stored was destroyed, nothing is lost -/
theorem spec_destroyed_perm [TransCmp cmp] (ops : List (Op κ ν)) (l : List (κ × ν)) (hs : SM.Sorted cmp l) :
    (destroyed (specRun cmp l ops).2 ++ (specRun cmp l ops).1).Perm (inserted ops ++ l) := by
  induction ops generalizing l with
  | nil => simp [specRun, destroyed, inserted]
  | cons op ops ih =>
    cases op with
    | ins k v =>
      have h := ih (SM.insert cmp l k v) (SM.sorted_insert hs k v)
      simp only [specRun, specStep, destroyed, inserted, List.append_assoc]
      refine (h.append_left _).trans ?_
      refine List.perm_append_comm_assoc _ _ _ |>.trans ?_
      refine ((SM.perm_insert hs k v).append_left _).trans ?_
      exact List.perm_middle
    | rem k =>
      have h := ih (SM.erase cmp l k) (SM.sorted_erase hs k)
      simp only [specRun, specStep, destroyed, inserted, List.append_assoc]
      refine (h.append_left _).trans ?_
      refine List.perm_append_comm_assoc _ _ _ |>.trans ?_
      exact (SM.perm_erase hs k).append_left _
    | get k => simpa only [specRun, specStep, destroyed, inserted] using ih l hs
    | each j => simpa only [specRun, specStep, destroyed, inserted] using ih l hs
    | clear =>
      have h := ih [] (by simp [SM.Sorted])
      simp only [specRun, specStep, destroyed, inserted, List.append_assoc]
      rw [List.append_nil] at h
      exact (h.append_left l).trans List.perm_append_comm
    | count => simpa only [specRun, specStep, destroyed, inserted] using ih l hs

/-- the same for the three implementations, from the empty tree -/
theorem bst_destroyed_perm [TransCmp cmp] (ops : List (Op κ ν)) :
    (destroyed (bstRun cmp (.nil, 0) ops).2 ++ (bstRun cmp (.nil, 0) ops).1.1.toList).Perm (inserted ops) := by
  have ⟨h1, h2⟩ := bst_run_refines (cmp := cmp) ops
  rw [h1, h2]
  simpa using spec_destroyed_perm (cmp := cmp) ops [] (by simp [SM.Sorted])

theorem avl_destroyed_perm [TransCmp cmp] (ops : List (Op κ ν)) :
    ∃ s outs, avlRun cmp (.nil, 0) ops = some (s, outs) ∧ (destroyed outs ++ s.1.toList).Perm (inserted ops) := by
  obtain ⟨s, h1, h2⟩ := avl_run_refines (cmp := cmp) ops
  refine ⟨s, _, h1, ?_⟩
  rw [h2]
  simpa using spec_destroyed_perm (cmp := cmp) ops [] (by simp [SM.Sorted])

theorem rb_destroyed_perm [TransCmp cmp] (ops : List (Op κ ν)) :
    ∃ s outs, rbRun cmp (.nil, 0) ops = some (s, outs) ∧ (destroyed outs ++ s.1.toList).Perm (inserted ops) := by
  obtain ⟨s, h1, h2⟩ := rb_run_refines (cmp := cmp) ops
  refine ⟨s, _, h1, ?_⟩
  rw [h2]
  simpa using spec_destroyed_perm (cmp := cmp) ops [] (by simp [SM.Sorted])

/-- so when the inserted objects are pairwise distinct, no object is destroyed twice and no
    destroyed object is still stored -/
theorem exactly_once_of_perm {α : Type} {d s i : List α} (h : (d ++ s).Perm i) (hi : i.Nodup) :
    d.Nodup ∧ ∀ x ∈ d, x ∉ s := by
  have hn : (d ++ s).Nodup := h.nodup_iff.mpr hi
  have := List.nodup_append.mp hn
  exact ⟨this.1, fun x hx hs => (this.2.2 x hx x hs) rfl⟩

/-- a history that ends with clear/free leaves nothing stored: everything inserted was destroyed once -/
theorem spec_clear_destroys_all (l : List (κ × ν)) :
    specStep cmp l .clear = ([], .cleared 0 l) := rfl

end PV.Tree

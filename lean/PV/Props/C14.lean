import PV.Props.C12
/-!
# C14 — every key/value is destroyed exactly once, at the call that takes it out of the tree

The destroy log of every call is part of the outputs that C12 proves equal to the spec's
(`Out.ins _ d`, `Out.rem _ _ d`, `Out.cleared _ d`), and the spec destroys exactly
* on insert: the pair that was stored under an equal key (`SM.find`), nothing otherwise;
* on remove: the pair stored under that key, nothing when absent;
* on clear / free: everything stored.
What remains is the bookkeeping over whole histories.  Histories may contain inserts whose node allocation fails
(`Op.insf`): what entered the tree is `entered cmp l ops`, which follows the spec state — such an insert hands its pair
over only on the replace path (`failed_insert_owns_nothing`; `entered_eq_inserted` for histories without them).
-/
namespace PV.Tree
open Std

variable {κ ν : Type} {cmp : κ → κ → Ordering}

/-- over any history, *destroyed so far* together with *still stored* is exactly *inserted so far*
    (as multisets): nothing is destroyed twice, nothing stored was destroyed, nothing is lost -/
theorem spec_destroyed_perm [TransCmp cmp] (ops : List (Op κ ν)) (l : List (κ × ν)) (hs : SM.Sorted cmp l) :
    (destroyed (specRun cmp l ops).2 ++ (specRun cmp l ops).1).Perm (entered cmp l ops ++ l) := by
  induction ops generalizing l with
  | nil => simp [specRun, destroyed, entered]
  | cons op ops ih =>
    cases op with
    | ins k v =>
      have h := ih (SM.insert cmp l k v) (SM.sorted_insert hs k v)
      simp only [specRun, specStep, destroyed, entered, List.append_assoc]
      refine (h.append_left _).trans ?_
      refine List.perm_append_comm_assoc _ _ _ |>.trans ?_
      refine ((SM.perm_insert hs k v).append_left _).trans ?_
      exact List.perm_middle
    | insf k v =>
      by_cases hf : (SM.find cmp l k).isSome = true
      · -- replace path: exactly the `ins` case
        have h := ih (SM.insert cmp l k v) (SM.sorted_insert hs k v)
        simp only [specRun, specStep, destroyed, entered, hf, if_true, List.append_assoc, List.singleton_append]
        refine (h.append_left _).trans ?_
        refine List.perm_append_comm_assoc _ _ _ |>.trans ?_
        refine ((SM.perm_insert hs k v).append_left _).trans ?_
        exact List.perm_middle
      · -- new key: nothing entered, nothing destroyed, nothing stored changed
        have h := ih l hs
        have hf' : (SM.find cmp l k).isSome = false := by simpa using hf
        simpa only [specRun, specStep, destroyed, entered, hf', Bool.false_eq_true, if_false, List.nil_append] using h
    | rem k =>
      have h := ih (SM.erase cmp l k) (SM.sorted_erase hs k)
      simp only [specRun, specStep, destroyed, entered, List.append_assoc]
      refine (h.append_left _).trans ?_
      refine List.perm_append_comm_assoc _ _ _ |>.trans ?_
      exact (SM.perm_erase hs k).append_left _
    | get k => simpa only [specRun, specStep, destroyed, entered] using ih l hs
    | each j => simpa only [specRun, specStep, destroyed, entered] using ih l hs
    | clear =>
      have h := ih [] (by simp [SM.Sorted])
      simp only [specRun, specStep, destroyed, entered, List.append_assoc]
      rw [List.append_nil] at h
      exact (h.append_left l).trans List.perm_append_comm
    | count => simpa only [specRun, specStep, destroyed, entered] using ih l hs

/-- the same for the three implementations, from the empty tree -/
theorem bst_destroyed_perm [TransCmp cmp] (ops : List (Op κ ν)) :
    (destroyed (bstRun cmp (.nil, 0) ops).2 ++ (bstRun cmp (.nil, 0) ops).1.1.toList).Perm (entered cmp [] ops) := by
  have ⟨h1, h2⟩ := bst_run_refines (cmp := cmp) ops
  rw [h1, h2]
  simpa using spec_destroyed_perm (cmp := cmp) ops [] (by simp [SM.Sorted])

theorem avl_destroyed_perm [TransCmp cmp] (ops : List (Op κ ν)) :
    ∃ s outs, avlRun cmp (.nil, 0) ops = some (s, outs) ∧ (destroyed outs ++ s.1.toList).Perm (entered cmp [] ops) := by
  obtain ⟨s, h1, h2⟩ := avl_run_refines (cmp := cmp) ops
  refine ⟨s, _, h1, ?_⟩
  rw [h2]
  simpa using spec_destroyed_perm (cmp := cmp) ops [] (by simp [SM.Sorted])

theorem rb_destroyed_perm [TransCmp cmp] (ops : List (Op κ ν)) :
    ∃ s outs, rbRun cmp (.nil, 0) ops = some (s, outs) ∧ (destroyed outs ++ s.1.toList).Perm (entered cmp [] ops) := by
  obtain ⟨s, h1, h2⟩ := rb_run_refines (cmp := cmp) ops
  refine ⟨s, _, h1, ?_⟩
  rw [h2]
  simpa using spec_destroyed_perm (cmp := cmp) ops [] (by simp [SM.Sorted])

/-- for a history without failing inserts, what entered is simply every pair given to an insert, in call order (the form
    this invariant had before `Op.insf` existed) -/
theorem entered_eq_inserted (ops : List (Op κ ν)) (l : List (κ × ν)) (h : ∀ k v, Op.insf k v ∉ ops) :
    entered cmp l ops = inserted ops := by
  induction ops generalizing l with
  | nil => rfl
  | cons op ops ih =>
    have ih' := fun l' => ih l' (fun k v hm => h k v (List.mem_cons_of_mem _ hm))
    cases op with
    | insf k v => exact absurd List.mem_cons_self (h k v)
    | ins k v => simp only [entered, inserted, ih']
    | rem k => simp only [entered, inserted, ih']
    | get k => simp only [entered, inserted, ih']
    | each j => simp only [entered, inserted, ih']
    | clear => simp only [entered, inserted, ih']
    | count => simp only [entered, inserted, ih']

/-- **an insert that fails for lack of memory takes nothing and destroys nothing**: when no equal key is stored and the
    node allocation fails, the pair the caller passed does not enter the tree (it is in no later destroy log unless it is
    inserted again: `entered` does not list it), no stored object is handed to a notifier at that call, and what is stored
    is unchanged — in the spec and, literally (same tree, same count), in all three variants.  The caller still owns the
    key and the value it passed. -/
theorem failed_insert_owns_nothing (k : κ) (v : ν) (l : List (κ × ν)) (ops : List (Op κ ν))
    (hf : (SM.find cmp l k).isSome = false) :
    entered cmp l (.insf k v :: ops) = entered cmp l ops ∧
    destroyed (specRun cmp l (.insf k v :: ops)).2 = destroyed (specRun cmp l ops).2 ∧
    (specRun cmp l (.insf k v :: ops)).1 = (specRun cmp l ops).1 ∧
    (∀ s : BT κ ν × Int, (s.1.lookup cmp k).isSome = false → bstStep cmp s (.insf k v) = (s, .ins s.2 [])) ∧
    (∀ s : AT κ ν × Int, (s.1.toBT.lookup cmp k).isSome = false → avlStep cmp s (.insf k v) = some (s, .ins s.2 [])) ∧
    (∀ s : RT κ ν × Int, (s.1.toBT.lookup cmp k).isSome = false → rbStep cmp s (.insf k v) = some (s, .ins s.2 [])) := by
  have e : specStep cmp l (.insf k v) = (l, .ins l.length []) := (failed_insert_is_identity (cmp := cmp) k v).1 l hf
  have h2 := failed_insert_is_identity (cmp := cmp) k v
  refine ⟨?_, ?_, ?_, h2.2.1, h2.2.2.1, h2.2.2.2⟩
  · simp only [entered, hf, Bool.false_eq_true, if_false, List.nil_append, e]
  · simp only [specRun, e, destroyed, List.nil_append]
  · simp only [specRun, e]

/-- so when the inserted objects are pairwise distinct, no object is destroyed twice and no
    destroyed object is still stored -/
theorem exactly_once_of_perm {α : Type} {d s i : List α} (h : (d ++ s).Perm i) (hi : i.Nodup) :
    d.Nodup ∧ ∀ x ∈ d, x ∉ s := by
  have hn : (d ++ s).Nodup := h.nodup_iff.mpr hi
  have := List.nodup_append.mp hn
  exact ⟨this.1, fun x hx hs => (this.2.2 x hx x hs) rfl⟩

/-- a history that ends with clear/free leaves nothing stored: everything inserted was destroyed once -/
theorem spec_clear_destroys_all (l : List (κ × ν)) :
    specStep cmp l .clear = ([], .cleared 0 l) := rfl

/-- non-vacuity: a failing insert of a new key enters nothing; of a stored key it enters its pair and the old pair is destroyed -/
example : entered (κ := Nat) (ν := Nat) compare [] [.ins 2 20, .insf 1 10, .insf 2 21] = [(2, 20), (2, 21)] ∧
    destroyed (specRun (κ := Nat) (ν := Nat) compare [] [.ins 2 20, .insf 1 10, .insf 2 21]).2 = [(2, 20)] := by
  decide

end PV.Tree

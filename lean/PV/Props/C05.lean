import PV.Lemmas.UThread
import PV.Lemmas.UThreadOwners
import PV.Lemmas.UThreadRefine
/-!
# C05 — threads: join / exit code, reference count, TLS destructors

Statements are about the history machine `PV.UThread` (`PV/Model/UThread.lean`): `Reach s` = `s` is
reached by some history (any number of threads, handles, keys; any interleaving) in which every event
was enabled; `DReach s` = reached by a history that in addition obeys the reference discipline
(`Permitted`: every holder uses only its own reference).

Reading guide (property text → theorem)
* "join returns only after the target has finished and yields the code given to exit (0 for a plain
  return)" → `join_code`, `exit_records_code`, `return_records_nothing` (join is *enabled* only after the
  target's `threadEnd`: the trusted `pthread_join` contract; that the thread's writes are visible
  afterwards is that same contract and is not a theorem here).
* "a handle stays valid while any reference exists and is released exactly once after the last one,
  whatever the order of unref, thread termination and join" → `refcount_is_holders`, `free_once`,
  `freed_iff_no_holder`, `free_only_by_unref`, `unref_frees_iff_last`, `threadEnd_frees_own_handle_only`,
  `no_use_after_free`.
* "a TLS key holds an independent value per thread" → `tls_independent`, `tls_get`.
* "the notifier runs exactly once for every non-NULL value left at thread exit or replaced, never for
  set" → `destructor_exactly_once` (three clauses) and `destructor_only_then`.
* lazy native-key creation → `key_race_single_winner`, `key_race_loser_cleans_up`, `tls_uses_published_key`.
* `p_uthread_init` / `p_uthread_shutdown` → `init_shutdown_neutral_threads`.
* `p_uthread_local_free` (repaired: deletes the native key, frees its block) → `local_free_releases_native_key`,
  `native_release_once`; source-shape obligations of the F10 repair → `proxy_checks_its_slot`.
* creation handshake → `fields_written_before_start`.
* failing native calls (gap round, coverage/threads.md): a creation whose `pthread_attr_init` / `pthread_attr_setdetachstate` /
  `pthread_create` fails → `create_fail_releases_once` (NULL, no thread, the block released exactly once inside the call),
  `freed_handle_not_permitted`; `pthread_join` reporting an error → `join_fail_code` (the call does not wait: the code recorded so
  far); the lazy `pthread_key_create` failing → `tls_fail_changes_nothing` (set / replace / get), `current_fail_releases_once`
  (`p_uthread_current`: NULL, the fresh block released once).  `free_only_by_unref` names these two frees as the only ones that are
  not an unref.
* the library thread whose own TLS store does not take (`pp_uthread_proxy`, `is_stored == FALSE`; events `startUnstored`, `retUnstored`;
  invariant `PInv`) → `start_unstored_keeps_reference`, `proxy_unstored_releases_once`, `unstored_thread_end_leaves_handle`; observations
  about the code as it is, under faults outside the property's quantifier: `exit_code_lost_when_slot_unstored`,
  `join_of_unstored_yields_zero` (`p_uthread_exit` in such a thread returns; the join yields 0) and — `pthread_setspecific` reporting an
  error (`storeFail`) — `replace_setspecific_failure_destroys_twice`, `set_setspecific_failure_is_noop`.
* the independent executable reference `PV/Spec/UThread.lean` (the spec column of the differential run) answers
  exactly as the machine does → `spec_refinement_step`, `spec_refinement`, `spec_refinement_disciplined`.
* references attributed to the threads that hold them (`PV.Model.UThreadOwners`) → `user_refs_are_held`,
  `refcount_is_outstanding_references`, `per_thread_discipline_implies_pooled`, `no_use_after_free_per_thread`.
-/
namespace PV.UThread
open PV.Generated.UThread

/-! ## reference count -/

/-- in every reachable state the `ref_count` of a handle that has not been freed is the number of
    outstanding references: the users' (creator's + explicit refs − unrefs) plus the thread's own -/
theorem refcount_is_holders {s : State} (hr : Reach s) (h : Nat) (hf : (s.hdl h).freed = false) :
    (s.hdl h).refCount = holders (s.hdl h) :=
  hr.inv.2.hR h hf

/-- a handle is freed at most once over any history, and the free log is exactly the set of freed handles -/
theorem free_once {s : State} (hr : Reach s) :
    s.freeLog.Nodup ∧ ∀ h, h ∈ s.freeLog ↔ (s.hdl h).freed = true :=
  ⟨hr.inv.2.fN, hr.inv.2.fL⟩

/-- along disciplined histories a fully created handle is freed exactly when no reference is
    outstanding — whatever the order of creator unref / explicit ref, unref / thread end / join that led there -/
theorem freed_iff_no_holder {s : State} (hr : DReach s) (h : Nat) (hw : (s.hdl h).written = true) :
    (s.hdl h).freed = true ↔ holders (s.hdl h) = 0 := by
  obtain ⟨_, hi, hf⟩ := hr.inv
  constructor
  · intro hfr; have := hf h hfr; simp [holders, this.1, this.2]
  · intro h0
    cases hfr : (s.hdl h).freed with
    | true => rfl
    | false => have := hi.hL h hw hfr; omega

/-- only `unref` — explicit, the library key's destructor at thread end, or the proxy's own unref when the thread's slot was
    never stored (`retUnstored`) — frees a handle anybody ever held; the only
    other frees are the ones inside a creation / a `p_uthread_current` that fails (`create_fail_releases_once`,
    `current_fail_releases_once`: a block nobody was given) -/
theorem free_only_by_unref {s s' : State} {e : Ev} (hs : step s e = .ok s') (hne : s'.freeLog ≠ s.freeLog) :
    (∃ a h, e = .unref a h) ∨ (∃ t, e = .threadEnd t) ∨ (∃ a, e = .createFail a) ∨ (∃ t, e = .currentFail t) ∨
    (∃ t h, e = .retUnstored t h) := by
  apply Classical.byContradiction
  intro hc
  have hc' := not_or.mp hc
  have hc'' := not_or.mp hc'.2
  have hc3 := not_or.mp hc''.2
  have hc4 := not_or.mp hc3.2
  exact hne (freeLog_frame hs (fun a h e' => hc'.1 ⟨a, h, e'⟩) (fun t e' => hc''.1 ⟨t, e'⟩) (fun a e' => hc3.1 ⟨a, e'⟩)
    (fun t e' => hc4.1 ⟨t, e'⟩) (fun t h e' => hc4.2 ⟨t, h, e'⟩))

/-- an explicit `unref` frees the handle iff it drops the last reference (the count it sees is 1 = the
    number of holders), and then it frees exactly that handle -/
theorem unref_frees_iff_last {s s' : State} {a h : Nat} (hr : Reach s) (hs : step s (.unref a h) = .ok s') :
    (s.hdl h).freed = false ∧
    s'.freeLog = (if holders (s.hdl h) = 1 then s.freeLog ++ [h] else s.freeLog) := by
  obtain ⟨_, _, _, hu⟩ := unref_ok hs
  have hfr := (unrefCore_ok hu).1
  refine ⟨hfr, ?_⟩
  have h1 := hr.inv.2.hR h hfr
  rw [unrefCore_free hu]
  simp only [unrefFreesWhenOldIs, h1]
  by_cases c : holders (s.hdl h) = 1
  · simp [c]
  · have : ¬ ((holders (s.hdl h) : Int) = 1) := by omega
    simp [c, this]

/-- thread termination frees at most one handle: the one in the thread's library-key cell, and only
    when the thread's own reference was the last -/
theorem threadEnd_frees_own_handle_only {s s' : State} {t : Nat} (hr : Reach s) (hs : step s (.threadEnd t) = .ok s') :
    s'.freeLog = s.freeLog ∨
    ∃ n, (s.key 0).published = some n ∧ s.tls t n ≠ 0 ∧ holders (s.hdl (s.tls t n - 1)) = 1 ∧
      (s.hdl (s.tls t n - 1)).userRefs = 0 ∧ s'.freeLog = s.freeLog ++ [s.tls t n - 1] := by
  obtain ⟨hk, hi⟩ := hr.inv
  obtain ⟨hp, s1, hrd, rfl⟩ := threadEnd_ok hs
  rcases runDtors_free hk List.nodup_range hrd with h1 | ⟨n, _, ho, hv, hc, hfl⟩
  · exact .inl h1
  · refine .inr ⟨n, by have := hk.kV t n hv; rw [ho] at this; exact this, hv, ?_, ?_, hfl⟩
    all_goals
      obtain ⟨_, htr, _⟩ := hi.lT t n ho hv
      have hfr : (s.hdl (s.tls t n - 1)).freed = false := by
        cases hfr : (s.hdl (s.tls t n - 1)).freed with
        | false => rfl
        | true =>
          -- the destructor ran without fault, so the block was live
          exfalso
          have hmem : n ∈ List.range s.nN := List.mem_range.mpr (hk.val_lt hv)
          have := (hi.fL _).mpr hfr
          have hnd := (hi.runDtors_inv hk hp hrd).fN
          rw [hfl] at hnd
          exact (List.nodup_append.mp hnd).2.2 _ this _ (by simp) rfl
      have h1 := hi.hR _ hfr
      simp only [holders, htr, unrefFreesWhenOldIs] at h1 hc ⊢
      simp at h1 ⊢; omega

/-- the discipline suffices: in a state reached by a disciplined history no permitted event reads or
    writes a freed `PUThread` block (the model's `useAfterFree` fault = what ASan reports on the C side) -/
theorem no_use_after_free {s : State} {e : Ev} (hr : DReach s) (hp : Permitted s e) :
    ∀ h, step s e ≠ .error (.useAfterFree h) := by
  obtain ⟨hk, hi, hf⟩ := hr.inv
  exact step_no_uaf hf hi hk hr.reach.pinv hp

/-- … hence a disciplined history never faults on a handle anywhere along the way -/
theorem no_use_after_free_run : ∀ {es : List Ev} {s : State}, DReach s → Disciplined s es → ∀ h, run s es ≠ .error (.useAfterFree h)
  | [], _, _, _, _, hs => by unfold run at hs; cases hs
  | e :: r, s, hr, hd, h, hs => by
    unfold run at hs
    split at hs
    · rename_i x hx; injection hs with hs; subst hs; exact no_use_after_free hr hd.1 h hx
    · rename_i s' hx; exact no_use_after_free_run (.step e hr hd.1 hx) (hd.2 s' hx) h hs

/-! ## failing native calls: creation that fails, `pthread_join` that reports an error -/

/-- `p_uthread_create*` whose native part fails (`pthread_attr_init`, `pthread_attr_setdetachstate` or `pthread_create`
    returns an error) gives NULL and leaves nothing behind: the block the call allocated (it takes the next handle id)
    is released exactly once inside the call — it was not in the free log before, it is its last entry afterwards —, it
    carries no reference of anybody, no thread came into being, the creation spinlock is free again, and no other
    handle, thread record, TLS cell, key or log changed -/
theorem create_fail_releases_once {s s' : State} {a : Nat} (hr : Reach s) (hs : step s (.createFail a) = .ok s') :
    s'.freeLog = s.freeLog ++ [s.nH] ∧ s.nH ∉ s.freeLog ∧ s'.freeLog.Nodup ∧
    (s'.hdl s.nH).freed = true ∧ holders (s'.hdl s.nH) = 0 ∧ (s'.hdl s.nH).ours = false ∧
    s'.nH = s.nH + 1 ∧ s'.nT = s.nT ∧ s'.thr = s.thr ∧ s.spin = none ∧ s'.spin = none ∧
    (∀ h, h ≠ s.nH → s'.hdl h = s.hdl h) ∧
    s'.tls = s.tls ∧ s'.key = s.key ∧ s'.nkey = s.nkey ∧ s'.dtorLog = s.dtorLog ∧ s'.joinLog = s.joinLog := by
  have hr' : Reach s' := .step _ hr hs
  obtain ⟨_, hspin, rfl⟩ := createFail_ok hs
  have hnot : s.nH ∉ s.freeLog := by
    intro hm
    have := (hr.inv.2.fL s.nH).mp hm
    rw [hr.inv.2.hB s.nH (Nat.le_refl _)] at this; cases this
  refine ⟨rfl, hnot, hr'.inv.2.fN, by simp, by simp [holders], by simp, rfl, rfl, rfl, hspin, hspin, ?_, rfl, rfl, rfl, rfl, rfl⟩
  intro h hne; simp only; rw [upd_ne _ _ hne]

/-- a handle that has been released — in particular the block of a failed creation — is named by no permitted event:
    along disciplined histories nobody holds a reference to it, so `ref`, `unref`, `join` of it are outside the discipline -/
theorem freed_handle_not_permitted {s : State} (hr : DReach s) {h : Nat} (hf : (s.hdl h).freed = true) (a : Nat) :
    ¬ Permitted s (.ref a h) ∧ ¬ Permitted s (.unref a h) ∧ ¬ Permitted s (.join a h) ∧ ¬ Permitted s (.joinFail a h) := by
  obtain ⟨_, _, hfi⟩ := hr.inv
  have := hfi h hf
  refine ⟨?_, ?_, ?_, ?_⟩ <;> simp [Permitted, this.1, this.2]

/-- `p_uthread_join` on a joinable handle whose `pthread_join` reports an error (`p_uthread_wait_internal` only logs it)
    does not wait: it yields what `ret_code` holds at that moment — 0 as long as the target has not left its function,
    the argument of its `p_uthread_exit` (0 for a plain return) once it has —, records no native join (a later
    `p_uthread_join` is still possible) and changes nothing else -/
theorem join_fail_code {s s' : State} {a h : Nat} (hr : Reach s) (hs : step s (.joinFail a h) = .ok s') :
    s'.joinLog = s.joinLog ++ [(a, h, (s.hdl h).retCode)] ∧
    (s.hdl h).joinable = true ∧ (s.hdl h).ours = true ∧
    ((s.thr (s.hdl h).thread).handle = some h ∨ (s.thr (s.hdl h).thread).proxy = some h) ∧
    (((s.thr (s.hdl h).thread).phase = .created ∨ (s.thr (s.hdl h).thread).phase = .running) → (s.hdl h).retCode = 0) ∧
    (((s.thr (s.hdl h).thread).phase = .finished ∨ (s.thr (s.hdl h).thread).phase = .ended) →
      (s.hdl h).retCode = ((s.thr (s.hdl h).thread).exitArg).getD 0) ∧
    s'.hdl = s.hdl ∧ s'.thr = s.thr ∧ s'.freeLog = s.freeLog ∧ s'.tls = s.tls ∧ s'.dtorLog = s.dtorLog := by
  obtain ⟨_, hi⟩ := hr.inv
  obtain ⟨_, _, hw, _, hj, rfl⟩ := joinFail_ok hs
  have ho : (s.hdl h).ours = true := by
    cases ho : (s.hdl h).ours with
    | true => rfl
    | false => rw [hi.hJ h hw ho] at hj; cases hj
  cases hor : (s.hdl h).orphan with
  | false =>
    have hlink := hi.hO h ho hor
    have hjc := hi.jC _ h hlink
    exact ⟨rfl, hj, ho, .inl hlink, fun hp => (hjc.1 hp).1, hjc.2, rfl, rfl, rfl, rfl, rfl⟩
  | true =>
    have hpx := hr.pinv.pO h hor
    obtain ⟨_, p2, _, _, _, _, _, p8, _, _⟩ := hr.pinv.pP _ h hpx
    exact ⟨rfl, hj, ho, .inr hpx, fun _ => p8, fun _ => by rw [p8, p2]; rfl, rfl, rfl, rfl, rfl, rfl⟩

/-- `p_uthread_current` of a thread without a stored handle, when the fresh handle cannot be stored (the lazy creation of
    the library key's native key fails): NULL, and the `PUThreadBase` block allocated meanwhile is released exactly once
    inside the call; the thread still has no handle, nothing else changed -/
theorem current_fail_releases_once {s s' : State} {t : Nat} (hr : Reach s) (hs : step s (.currentFail t) = .ok s') :
    s'.freeLog = s.freeLog ++ [s.nH] ∧ s.nH ∉ s.freeLog ∧ s'.freeLog.Nodup ∧
    (s'.hdl s.nH).freed = true ∧ holders (s'.hdl s.nH) = 0 ∧ valueOf s t 0 = 0 ∧ valueOf s' t 0 = 0 ∧
    s'.nH = s.nH + 1 ∧ s'.thr = s.thr ∧ s'.spin = s.spin ∧ (∀ h, h ≠ s.nH → s'.hdl h = s.hdl h) ∧
    s'.tls = s.tls ∧ s'.key = s.key ∧ s'.nkey = s.nkey ∧ s'.dtorLog = s.dtorLog ∧ s'.curLog = s.curLog := by
  have hr' : Reach s' := .step _ hr hs
  have hv : valueOf s t 0 = 0 := by
    simp only [step, currentFail] at hs
    split at hs
    · cases hs
    · split at hs
      · cases hs
      · split at hs
        · cases hs
        · rename_i hv; simpa using hv
  obtain ⟨_, _, rfl⟩ := currentFail_ok hs
  have hnot : s.nH ∉ s.freeLog := by
    intro hm
    have := (hr.inv.2.fL s.nH).mp hm
    rw [hr.inv.2.hB s.nH (Nat.le_refl _)] at this; cases this
  refine ⟨rfl, hnot, hr'.inv.2.fN, by simp, by simp [holders], hv, hv, rfl, rfl, rfl, ?_, rfl, rfl, rfl, rfl, rfl⟩
  intro h hne; simp only; rw [upd_ne _ _ hne]

/-- a TLS call on a key without a native key whose `pthread_key_create` fails is a no-op: `set` / `replace` store nothing
    and call no notifier, `get` yields NULL (the cell is NULL: nothing was ever stored under that key); no native key
    exists afterwards, nothing is published (the next call tries again), no block is left -/
theorem tls_fail_changes_nothing {s s' : State} {t k : Nat} {g : Bool} (hs : step s (.tlsFail t k g) = .ok s') :
    (s.key k).published = none ∧ (∀ t', valueOf s t' k = 0) ∧
    s'.getLog = s.getLog ++ (if g then [(t, k, 0)] else []) ∧
    s'.dtorLog = s.dtorLog ∧ s'.tls = s.tls ∧ s'.key = s.key ∧ s'.nkey = s.nkey ∧ s'.nN = s.nN ∧
    s'.blockFreeLog = s.blockFreeLog ∧ s'.keyDelLog = s.keyDelLog ∧ s'.hdl = s.hdl ∧ s'.thr = s.thr ∧ s'.freeLog = s.freeLog := by
  obtain ⟨_, _, _, _, hp, rfl⟩ := tlsFail_ok hs
  exact ⟨hp, fun t' => by simp [valueOf, hp], rfl, rfl, rfl, rfl, rfl, rfl, rfl, rfl, rfl, rfl, rfl⟩

/-! ## a library thread whose own TLS store does not take (`pp_uthread_proxy`, `is_stored == FALSE`) -/

/-- the proxy path on which nothing is stored: the thread runs its function with an empty library slot, still holding its
    reference to the handle (count and holders unchanged); for the library it is an unknown thread from now on -/
theorem start_unstored_keeps_reference {s s' : State} {t : Nat} (hr : Reach s) (hs : step s (.startUnstored t) = .ok s') :
    ∃ h, (s.thr t).handle = some h ∧ (s'.thr t).proxy = some h ∧ (s'.thr t).handle = none ∧ (s'.thr t).phase = .running ∧
      valueOf s' t 0 = 0 ∧ (s'.hdl h).refCount = (s.hdl h).refCount ∧ holders (s'.hdl h) = holders (s.hdl h) ∧
      (s'.hdl h).threadRef = true ∧ (s'.hdl h).freed = false ∧ s'.tls = s.tls ∧ s'.freeLog = s.freeLog := by
  have hr' : Reach s' := .step _ hr hs
  obtain ⟨h, hph, _, hh, _, hv, hf, rfl⟩ := startUnstored_ok hs
  have hpx : ((upd s.thr t { s.thr t with phase := .running, handle := none, proxy := some h }) t).proxy = some h := by simp [upd]
  have := (hr'.pinv.pP t h hpx).2.2.2.2.2.2.2.2.2 (by simp [upd])
  refine ⟨h, hh, by simp [upd], by simp [upd], by simp [upd], hv, by simp [upd], by simp [upd, holders], this, by simp [upd, hf], rfl, rfl⟩

/-- **the handle of such a thread is released exactly once, whatever the order of creator unref / join / thread end.**
    When the thread function returns, the proxy gives up the thread's own reference itself (`retUnstored`): the handle was
    alive, the thread's reference disappears, the users' references are untouched, and the block is freed by this very step
    iff no user reference is outstanding — otherwise by the `unref` that drops the last one (`unref_frees_iff_last`,
    `freed_iff_no_holder`), never twice (`free_once`); no TLS destructor will ever see the handle
    (`unstored_thread_end_leaves_handle`) -/
theorem proxy_unstored_releases_once {s s' : State} {t h : Nat} (hr : Reach s) (hs : step s (.retUnstored t h) = .ok s') :
    (s.thr t).proxy = some h ∧ (s.hdl h).thread = t ∧ (s.hdl h).freed = false ∧ (s.hdl h).threadRef = true ∧
    (s'.hdl h).threadRef = false ∧ (s'.hdl h).userRefs = (s.hdl h).userRefs ∧
    s'.freeLog = (if (s.hdl h).userRefs = 0 then s.freeLog ++ [h] else s.freeLog) ∧
    ((s'.hdl h).freed = true ↔ (s.hdl h).userRefs = 0) ∧ s'.freeLog.Nodup ∧ h ∉ s.freeLog ∧
    (s'.thr t).phase = .finished ∧ s'.tls = s.tls ∧ s'.dtorLog = s.dtorLog := by
  have hr' : Reach s' := .step _ hr hs
  obtain ⟨hk, hi⟩ := hr.inv
  obtain ⟨hc, hpx, s1, hu, rfl⟩ := retUnstored_ok hs
  obtain ⟨_, _, _, p4, _, _, _, _, _, p10⟩ := hr.pinv.pP t h hpx
  have htr := p10 hc.1
  obtain ⟨hf, hcase⟩ := unrefCore_ok hu
  have hR := hi.hR h hf
  have hnot : h ∉ s.freeLog := by intro hm; rw [(hi.fL h).mp hm] at hf; cases hf
  simp only [holders, htr, if_true] at hR
  rcases hcase with ⟨hcn, rfl⟩ | ⟨hcn, rfl⟩
  · have h0 : (s.hdl h).userRefs = 0 := by simp only [unrefFreesWhenOldIs] at hcn; omega
    exact ⟨hpx, p4, hf, htr, by simp [upd, decd], by simp [upd, decd], by simp [h0], by simp [upd, h0], hr'.inv.2.fN, hnot,
      by simp [upd], rfl, rfl⟩
  · have h0 : ¬ (s.hdl h).userRefs = 0 := by simp only [unrefFreesWhenOldIs] at hcn; omega
    exact ⟨hpx, p4, hf, htr, by simp [upd, decd], by simp [upd, decd], by simp [h0], by simp [upd, decd, hf, h0], hr'.inv.2.fN, hnot,
      by simp [upd], rfl, rfl⟩

/-- the end of such a thread frees at most the handle in its library cell (one made by `p_uthread_current` meanwhile), never
    the handle it was created with: no destructor is registered for that one -/
theorem unstored_thread_end_leaves_handle {s s' : State} {t h : Nat} (hr : Reach s) (hpx : (s.thr t).proxy = some h)
    (hs : step s (.threadEnd t) = .ok s') : s'.freeLog = s.freeLog ∨ ∃ h', h' ≠ h ∧ s'.freeLog = s.freeLog ++ [h'] := by
  rcases threadEnd_frees_own_handle_only hr hs with h1 | ⟨n, hp, hv, _, _, hfl⟩
  · exact .inl h1
  · refine .inr ⟨_, ?_, hfl⟩
    intro e
    have := hr.pinv.pS t n (hr.inv.1.kP 0 n hp).2.1 hv
    rw [e, (hr.pinv.pP t h hpx).2.2.2.2.1] at this; cases this

/-! ## join and exit code -/

/-- (a thread started by `startUnstored` has no record pointing to its handle: it is *proxied* for it; its `exitArg` is `none`
    and the code is 0, `join_of_unstored_yields_zero`)
    `p_uthread_join` on a joinable handle is possible only once its thread has ended, and yields the
    argument of the `p_uthread_exit` call that ended it, 0 if the function simply returned; on a
    handle that is not joinable (detached, or a thread the library did not create) it yields −1 -/
theorem join_code {s s' : State} {a h : Nat} (hr : Reach s) (hs : step s (.join a h) = .ok s') :
    s'.joinLog = s.joinLog ++ [(a, h, if (s.hdl h).joinable = true then ((s.thr (s.hdl h).thread).exitArg).getD 0 else -1)] ∧
    ((s.hdl h).joinable = true →
      (s.thr (s.hdl h).thread).phase = .ended ∧
      ((s.thr (s.hdl h).thread).handle = some h ∨ (s.thr (s.hdl h).thread).proxy = some h) ∧ (s.hdl h).ours = true) ∧
    ((s.hdl h).ours = false → (s.hdl h).joinable = false) := by
  obtain ⟨_, hi⟩ := hr.inv
  obtain ⟨_, _, hw, _, hcase⟩ := join_ok hs
  have hnotours : (s.hdl h).ours = false → (s.hdl h).joinable = false := hi.hJ h hw
  rcases hcase with ⟨hj, rfl⟩ | ⟨hj, hph, _, rfl⟩
  · exact ⟨by simp [hj], by simp [hj], hnotours⟩
  · have ho : (s.hdl h).ours = true := by
      cases ho : (s.hdl h).ours with
      | true => rfl
      | false => rw [hnotours ho] at hj; cases hj
    cases hor : (s.hdl h).orphan with
    | false =>
      have hlink := hi.hO h ho hor
      have := (hi.jC _ h hlink).2 (.inr hph)
      exact ⟨by simp [hj, this], fun _ => ⟨hph, .inl hlink, ho⟩, hnotours⟩
    | true =>
      have hpx := hr.pinv.pO h hor
      obtain ⟨_, p2, _, _, _, _, _, p8, _, _⟩ := hr.pinv.pP _ h hpx
      exact ⟨by simp [hj, p8, p2], fun _ => ⟨hph, .inr hpx, ho⟩, hnotours⟩

/-- `p_uthread_exit (code)` in a library thread records `code` for the joiner; in any other thread it returns -/
theorem exit_records_code {s s' : State} {t : Nat} {code : Int} (hr : Reach s) (hs : step s (.exit t code) = .ok s') :
    ((s.thr t).handle = none → (s'.thr t).phase = .running) ∧
    (∀ h, (s.thr t).handle = some h → (s'.thr t).phase = .finished ∧ (s'.thr t).exitArg = some code ∧ (s'.hdl h).retCode = code) := by
  obtain ⟨hk, hi⟩ := hr.inv
  obtain ⟨n, hc, _, hpub, _, hcase⟩ := exit_ok hs
  obtain ⟨_, _, hth⟩ := currentCore_handle hi hk (t := t) hpub
  have h1 := hi.currentCore_inv hk hc hpub
  constructor
  · intro hnone
    rcases hcase with ⟨_, rfl⟩ | ⟨ho, rfl⟩
    · rw [currentCore_thr]; exact hc.1
    · have := h1.hO _ ho (currentCore_orphan hr.pinv hi hk hpub); rw [hth, currentCore_thr, hnone] at this; cases this
  · intro h hh
    -- `p_uthread_current` yields the thread's own handle
    obtain ⟨m, p1, p2⟩ := hi.tR t h hc.1 hh
    rw [hpub] at p1; injection p1 with p1; subst p1
    have hcur : currentCore s t n = (s, h) := by unfold currentCore; simp [p2]
    have hw := hi.written_of_started hh (by rw [hc.1]; simp)
    have ho := hi.hW t h hh hw
    rcases hcase with ⟨hno, _⟩ | ⟨_, rfl⟩
    · rw [hcur] at hno; simp only at hno; rw [ho] at hno; cases hno
    · rw [hcur]; simp

/-- **observation about the code as it is** (a fault outside C05's quantifier: the library key's native key cannot be made
    when the thread starts): in such a thread `p_uthread_exit (c)` does not exit and records nothing — `p_uthread_current`
    finds an empty slot and makes a second handle that is not `ours`, so the call returns with the "unknown thread" warning —
    and a later join of the thread's handle yields 0, not `c` (`join_of_unstored_yields_zero`; concrete witness below) -/
theorem exit_code_lost_when_slot_unstored {s s' : State} {t h : Nat} {c : Int} (hr : Reach s) (hpx : (s.thr t).proxy = some h)
    (hs : step s (.exit t c) = .ok s') :
    (s'.thr t).phase = .running ∧ (s'.thr t).proxy = some h ∧ (s'.thr t).exitArg = none ∧ (s'.hdl h).retCode = 0 := by
  have hr' : Reach s' := .step _ hr hs
  have hrun := (exit_records_code hr hs).1 (hr.pinv.pP t h hpx).1
  have hpx' : (s'.thr t).proxy = some h := by
    obtain ⟨n, _, _, _, _, ⟨_, rfl⟩ | ⟨_, rfl⟩⟩ := exit_ok hs
    · rw [currentCore_thr]; exact hpx
    · simp [upd] at hrun
  obtain ⟨_, p2, _, _, _, _, _, p8, _, _⟩ := hr'.pinv.pP t h hpx'
  exact ⟨hrun, hpx', p2, p8⟩

theorem join_of_unstored_yields_zero {s s' : State} {a t h : Nat} (hr : Reach s) (hpx : (s.thr t).proxy = some h)
    (hs : step s (.join a h) = .ok s') :
    s'.joinLog = s.joinLog ++ [(a, h, if (s.hdl h).joinable = true then 0 else -1)] := by
  obtain ⟨_, p2, _, p4, _, _, _, _, _, _⟩ := hr.pinv.pP t h hpx
  have := (join_code hr hs).1
  rw [p4, p2] at this; simpa using this

/-- a plain return records nothing: the joiner will see 0 -/
theorem return_records_nothing {s s' : State} {t : Nat} (hr : Reach s) (hs : step s (.ret t) = .ok s') :
    (s'.thr t).phase = .finished ∧ ∀ h, (s.thr t).handle = some h → (s'.thr t).exitArg = none ∧ (s'.hdl h).retCode = 0 := by
  obtain ⟨hc, _, rfl⟩ := ret_ok hs
  refine ⟨by simp, fun h hh => ?_⟩
  have := (hr.inv.2.jC t h hh).1 (.inr hc.1)
  simp [this.1, this.2]

/-- creation handshake: when the proxy passes the spinlock every field of its handle has been written
    by the creator (the count is 2, `ours`, `joinable`, `func`, `data`, `name`) -/
theorem fields_written_before_start {s s' : State} {t : Nat} (hr : Reach s) (hs : step s (.start t) = .ok s') :
    ∃ h, (s.thr t).handle = some h ∧ (s.hdl h).written = true ∧ (s.hdl h).ours = true ∧ (s.hdl h).threadRef = true := by
  obtain ⟨_, hi⟩ := hr.inv
  obtain ⟨h, n, hph, _, hh, _, _, hspin, _, _⟩ := start_ok hs
  have hw : (s.hdl h).written = true := by
    cases hw : (s.hdl h).written with
    | true => rfl
    | false => obtain ⟨c, hc, _⟩ := hi.hS h (hi.tH t h hh).1 hw; rw [hspin] at hc; cases hc
  obtain ⟨h', h1, h2⟩ := hi.tC t hph
  rw [hh] at h1; injection h1 with h1; subst h1
  exact ⟨h, hh, hw, hi.hW t h hh hw, h2 hw⟩

/-! ## TLS values -/

/-- a store (`set_local` or `replace_local`) by thread `t` through key `k` sets the cell `(t, k)` and
    leaves the cell of every other (thread, key) pair as it was; no other event except the end of
    thread `t` changes what `t` sees under a user key `k` -/
theorem tls_independent {s s' : State} (hr : Reach s) :
    (∀ t k v, step s (.setLocal t k v) = .ok s' →
        valueOf s' t k = v ∧ ∀ t' k', ¬ (t' = t ∧ k' = k) → valueOf s' t' k' = valueOf s t' k') ∧
    (∀ t k v, step s (.replaceLocal t k v) = .ok s' →
        valueOf s' t k = v ∧ ∀ t' k', ¬ (t' = t ∧ k' = k) → valueOf s' t' k' = valueOf s t' k') ∧
    (∀ e t k, step s e = .ok s' → k ≠ 0 → (∀ v, e ≠ .setLocal t k v) → (∀ v, e ≠ .replaceLocal t k v) → e ≠ .threadEnd t →
        valueOf s' t k = valueOf s t k) := by
  obtain ⟨hk, _⟩ := hr.inv
  refine ⟨?_, ?_, ?_⟩
  · intro t k v hs
    obtain ⟨n, _, _, _, _, hp, rfl⟩ := setLocal_ok hs
    exact valueOf_store hk hp _
  · intro t k v hs
    obtain ⟨n, _, _, _, _, hp, rfl⟩ := replaceLocal_ok hs
    exact valueOf_store hk hp _
  · intro e t k hs hk0 h1 h2 h3
    exact valueOf_frame hk hs hk0 h1 h2 h3

/-- `get_local` returns the cell of the calling thread and changes no cell -/
theorem tls_get {s s' : State} {t k : Nat} (hs : step s (.getLocal t k) = .ok s') :
    s'.getLog = s.getLog ++ [(t, k, valueOf s t k)] ∧ ∀ t' k', valueOf s' t' k' = valueOf s t' k' := by
  obtain ⟨n, _, _, _, _, hp, rfl⟩ := getLocal_ok hs
  exact ⟨by simp [valueOf_pub hp], fun _ _ => rfl⟩

/-- the notifier runs exactly once, with that value, for
    (1) the non-NULL value overwritten by `replace_local` (key with a notifier),
    (2) every non-NULL value a thread leaves, when it ends, under a key with a notifier that has not been
        released with `p_uthread_local_free` — one call per such key (the list of calls has no duplicates and is
        exactly that set), after which the cells are NULL and the thread is gone; values left under a key
        that was freed are dropped without a call, as `puthread.h` documents;
    and (3) never for `set_local`, whatever it overwrites -/
theorem destructor_exactly_once {s s' : State} (hr : Reach s) :
    (∀ t k v, step s (.replaceLocal t k v) = .ok s' →
        s'.dtorLog = s.dtorLog ++
          (if valueOf s t k ≠ 0 ∧ (s.key k).notifier = true then [(t, k, valueOf s t k)] else [])) ∧
    (∀ t, step s (.threadEnd t) = .ok s' →
        ∃ L, s'.dtorLog = s.dtorLog ++ L ∧ L.Nodup ∧
          (∀ t' k v, (t', k, v) ∈ L ↔
            t' = t ∧ (s.key k).notifier = true ∧ (s.key k).wrapperFreed = false ∧ v ≠ 0 ∧ valueOf s t k = v) ∧
          (∀ k, (s.key k).notifier = true → (s.key k).wrapperFreed = false → valueOf s' t k = 0) ∧
          (s'.thr t).phase = .ended) ∧
    (∀ t k v, step s (.setLocal t k v) = .ok s' → s'.dtorLog = s.dtorLog) := by
  obtain ⟨hk, _⟩ := hr.inv
  refine ⟨?_, ?_, ?_⟩
  · intro t k v hs
    obtain ⟨n, _, _, _, _, hp, rfl⟩ := replaceLocal_ok hs
    simp only [notifyOld, replaceCallsNotifier, valueOf_pub hp]
    by_cases c : s.tls t n ≠ 0 ∧ (s.key k).notifier = true
    · simp [c]
    · simp only [c, if_false]
      have : ¬ (s.tls t n ≠ 0 ∧ (s.key k).notifier = true) := c
      simp
  · intro t hs
    obtain ⟨L, h1, h2, h3, h4⟩ := threadEnd_dtor hk hs
    obtain ⟨_, s1, _, rfl⟩ := threadEnd_ok hs
    exact ⟨L, h1, h2, h3, h4, by simp⟩
  · intro t k v hs
    obtain ⟨n, _, _, _, _, hp, rfl⟩ := setLocal_ok hs
    simp [notifyOld, setCallsNotifier]

/-- no other event calls a notifier — except, under a fault, a `replace_local` whose native store fails (`storeFail`,
    see `replace_setspecific_failure_destroys_twice`) -/
theorem destructor_only_then {s s' : State} {e : Ev} (hs : step s e = .ok s')
    (h1 : ∀ t k v, e ≠ .replaceLocal t k v) (h2 : ∀ t, e ≠ .threadEnd t) (h4 : ∀ t k r, e ≠ .storeFail t k r) :
    s'.dtorLog = s.dtorLog := by
  by_cases h3 : ∃ t k v, e = .setLocal t k v
  · obtain ⟨t, k, v, rfl⟩ := h3
    obtain ⟨n, _, _, _, _, hp, rfl⟩ := setLocal_ok hs
    simp [notifyOld, setCallsNotifier]
  · exact dtorLog_frame hs h1 h2 (fun t k v e' => h3 ⟨t, k, v, e'⟩) h4

/-- **observation about the code as it is** (a fault outside C05's quantifier: `pthread_setspecific` reporting an error):
    `p_uthread_replace_local` passes the old non-NULL value to the notifier BEFORE it stores the new one; when the store fails
    the destroyed value stays in the slot, and if the thread then leaves its function and ends, the notifier is called with
    that same value a second time.  `p_uthread_set_local` with a failing store is a no-op (no notifier). -/
theorem replace_setspecific_failure_destroys_twice {s s1 s2 s3 : State} {t k : Nat} (hr : Reach s)
    (hs : step s (.storeFail t k true) = .ok s1) (hv : valueOf s t k ≠ 0) (hn : (s.key k).notifier = true)
    (h2 : step s1 (.ret t) = .ok s2) (h3 : step s2 (.threadEnd t) = .ok s3) :
    s1.dtorLog = s.dtorLog ++ [(t, k, valueOf s t k)] ∧ valueOf s1 t k = valueOf s t k ∧
    ∃ L, s3.dtorLog = s1.dtorLog ++ L ∧ (t, k, valueOf s t k) ∈ L := by
  have hr1 : Reach s1 := .step _ hr hs
  have hr2 : Reach s2 := .step _ hr1 h2
  obtain ⟨n, _, hk0, _, hwf, hp, rfl⟩ := storeFail_ok hs
  obtain ⟨_, _, rfl⟩ := ret_ok h2
  rw [valueOf_pub hp] at hv
  refine ⟨by simp [notifyOld, replaceCallsNotifier, valueOf_pub hp, hv, hn], rfl, ?_⟩
  obtain ⟨L, e1, _, e3, _⟩ := (destructor_exactly_once hr2).2.1 t h3
  refine ⟨L, e1, (e3 t k _).mpr ⟨rfl, hn, hwf, ?_, rfl⟩⟩
  simpa [valueOf_pub hp] using hv

/-- `p_uthread_set_local` whose native store fails changes nothing at all -/
theorem set_setspecific_failure_is_noop {s s' : State} {t k : Nat} (hs : step s (.storeFail t k false) = .ok s') : s' = s := by
  obtain ⟨n, _, _, _, _, _, rfl⟩ := storeFail_ok hs
  simp [notifyOld, setCallsNotifier]

/-! ## lazy creation of the native key -/

/-- after any interleaving of first uses of key `k`:
    * at most one native key is published, and — as long as the wrapper has not been released with
      `p_uthread_local_free` — it is alive with its block allocated (afterwards it is deleted and freed:
      `local_free_releases_native_key`);
    * every native key ever created for `k` is that one, or a loser — deleted and its block freed —, or
      still between `pthread_key_create` and its compare-and-exchange in some thread;
    * so once nobody is in the middle of the race and a native key was ever created, exactly one is
      published and all others are gone. -/
theorem key_race_single_winner {s : State} (hr : Reach s) (k : Nat) :
    (∀ n, (s.key k).published = some n →
      n < s.nN ∧ (s.nkey n).owner = k ∧
      ((s.key k).wrapperFreed = false → (s.nkey n).live = true ∧ (s.nkey n).blockFreed = false)) ∧
    (∀ n, n < s.nN → (s.nkey n).owner = k →
      (s.key k).published = some n ∨
      (n ∈ (s.key k).losers ∧ (s.nkey n).live = false ∧ (s.nkey n).blockFreed = true ∧ (s.key k).published ≠ some n) ∨
      ∃ t, (s.thr t).pend = some (k, n)) ∧
    ((∃ n, n < s.nN ∧ (s.nkey n).owner = k) → (∀ t n, (s.thr t).pend ≠ some (k, n)) →
      ∃ w, (s.key k).published = some w ∧
        ∀ n, n < s.nN → (s.nkey n).owner = k → n ≠ w → (s.nkey n).live = false ∧ (s.nkey n).blockFreed = true) := by
  obtain ⟨hk, _⟩ := hr.inv
  have cls : ∀ n, n < s.nN → (s.nkey n).owner = k →
      (s.key k).published = some n ∨
      (n ∈ (s.key k).losers ∧ (s.nkey n).live = false ∧ (s.nkey n).blockFreed = true ∧ (s.key k).published ≠ some n) ∨
      ∃ t, (s.thr t).pend = some (k, n) := by
    intro n hn ho
    have := hk.kC n hn; rw [ho] at this
    rcases this with h1 | h1 | h1
    · exact .inl h1
    · have := hk.kL k n h1; exact .inr (.inl ⟨h1, this.2.2.1, this.2.2.2.1, this.2.2.2.2⟩)
    · exact .inr (.inr h1)
  refine ⟨fun n hp => hk.kP k n hp, cls, ?_⟩
  rintro ⟨n0, hn0, ho0⟩ hnp
  have win : ∃ w, (s.key k).published = some w := by
    rcases cls n0 hn0 ho0 with h1 | ⟨hl, _⟩ | ⟨t, h1⟩
    · exact ⟨n0, h1⟩
    · exact hk.kW k n0 hl
    · exact absurd h1 (hnp t n0)
  obtain ⟨w, hw⟩ := win
  refine ⟨w, hw, fun n hn ho hne => ?_⟩
  rcases cls n hn ho with h1 | ⟨_, h2, h3, _⟩ | ⟨t, h1⟩
  · rw [hw] at h1; injection h1 with h1; exact absurd h1.symm hne
  · exact ⟨h2, h3⟩
  · exact absurd h1 (hnp t n)


/-- the loser of the publication race deletes its native key and frees its block; the winner's key stays -/
theorem key_race_loser_cleans_up {s s' : State} {t k : Nat} (hs : step s (.keyCas t k) = .ok s') :
    ∃ n, (s.thr t).pend = some (k, n) ∧ (s'.thr t).pend = none ∧
      ((s.key k).published = none → (s'.key k).published = some n ∧ (s'.nkey n) = (s.nkey n)) ∧
      (∀ w, (s.key k).published = some w →
        (s'.key k).published = some w ∧ n ∈ (s'.key k).losers ∧ (s'.nkey n).live = false ∧ (s'.nkey n).blockFreed = true) := by
  obtain ⟨n, hpd, _, ⟨hpub, rfl⟩ | ⟨⟨m, hpub⟩, rfl⟩⟩ := keyCas_ok hs
  · exact ⟨n, hpd, by simp, fun _ => by simp, fun w hw => by rw [hpub] at hw; cases hw⟩
  · refine ⟨n, hpd, by simp, fun hn => (by rw [hpub] at hn; cases hn), fun w hw => ?_⟩
    simp [hw, casLoserDeletesKey, casLoserFreesBlock]

/-- every access goes to the published native key (which is alive): whoever created a key of its own
    and lost, uses the winner's -/
theorem tls_uses_published_key {s s' : State} (hr : Reach s) :
    (∀ t k v, step s (.setLocal t k v) = .ok s' → ∃ n, (s.key k).published = some n ∧ (s.nkey n).live = true ∧ s'.tls t n = v) ∧
    (∀ t k v, step s (.replaceLocal t k v) = .ok s' → ∃ n, (s.key k).published = some n ∧ (s.nkey n).live = true ∧ s'.tls t n = v) ∧
    (∀ t k, step s (.getLocal t k) = .ok s' → ∃ n, (s.key k).published = some n ∧ (s.nkey n).live = true ∧
        s'.getLog = s.getLog ++ [(t, k, s.tls t n)]) := by
  obtain ⟨hk, _⟩ := hr.inv
  refine ⟨?_, ?_, ?_⟩
  · intro t k v hs
    obtain ⟨n, _, _, _, hwf, hp, rfl⟩ := setLocal_ok hs
    exact ⟨n, hp, ((hk.kP k n hp).2.2 hwf).1, by simp⟩
  · intro t k v hs
    obtain ⟨n, _, _, _, hwf, hp, rfl⟩ := replaceLocal_ok hs
    exact ⟨n, hp, ((hk.kP k n hp).2.2 hwf).1, by simp⟩
  · intro t k hs
    obtain ⟨n, _, _, _, hwf, hp, rfl⟩ := getLocal_ok hs
    exact ⟨n, hp, ((hk.kP k n hp).2.2 hwf).1, rfl⟩





/-- `p_uthread_init` … any history … `p_uthread_shutdown` is neutral for the thread module's TLS resources:
    when the library is shut down (by a running thread `a`) in any reachable state in which nobody is inside a TLS
    call — in particular when no library thread is alive any more — the library key's wrapper is released and
    no native key and no native-key block of the library key remains (also when the key was never used: the
    `p_uthread_get_local` inside shutdown creates the native key and `p_uthread_local_free` releases it again);
    and if the user has released all of his keys, no native key and no block remains at all -/
theorem init_shutdown_neutral_threads {s s' : State} {a : Nat} (hr : Reach s) (hs : shutdown s a = .ok s')
    (hq : ∀ t, (s.thr t).pend = none) :
    (s'.key 0).wrapperFreed = true ∧
    (∀ n, n < s'.nN → (s'.nkey n).owner = 0 → (s'.nkey n).live = false ∧ (s'.nkey n).blockFreed = true) ∧
    ((∀ k, 0 < k → k < s.nK → (s.key k).wrapperFreed = true) →
      ∀ n, n < s'.nN → (s'.nkey n).live = false ∧ (s'.nkey n).blockFreed = true) :=
  shutdown_neutral hr.inv.1 hs hq

/-! ## the independent reference (`PV.Spec.UThread`) answers as the machine does -/

open PV.UThreadSpec in
/-- one event: from related states (`Abs`: the reference's handle table, thread→handle map, key table and cells
    are the machine's, seen through `absH` / `selfOf` / `cellOf`) an event the machine accepts leads to related
    states, and the API-visible answer — returned ids / join code / `get_local` value, live handles, handles
    released, notifier calls (sorted) — is the same on both sides -/
theorem spec_refinement_step {s s' : State} {sp : S} {e : Ev} (hr : Reach s) (ab : Abs s sp) (hs : step s e = .ok s') :
    Abs s' (specStep sp e).1 ∧ obsM s e s' = (specStep sp e).2 :=
  refine_step hr ab hs

open PV.UThreadSpec in
/-- every history, from the initial states: as far as the machine accepts the events the reference gives the
    same answers, and if the machine accepts all of them the two answer lists are equal (so the `SPECDIFF`
    column of the driver is empty on every history that does not fault) -/
theorem spec_refinement (es : List Ev) :
    obsRun init es = (specRun {} es).take (obsRun init es).length ∧
    (∀ s', run init es = .ok s' → obsRun init es = specRun {} es) := by
  have := refine_run es Reach.init Abs.init
  exact ⟨this.1, fun s' h => (this.2 s' h).1⟩

open PV.UThreadSpec in
/-- in particular for histories that obey the reference discipline: they never fault on a handle
    (`no_use_after_free_run`), and wherever they are enabled the reference agrees -/
theorem spec_refinement_disciplined (es : List Ev) (hd : Disciplined init es) :
    (∀ h, run init es ≠ .error (.useAfterFree h)) ∧
    obsRun init es = (specRun {} es).take (obsRun init es).length :=
  ⟨no_use_after_free_run .init hd, (spec_refinement es).1⟩

/-! ## references attributed to the threads that hold them -/

/-- along histories in which every thread uses only its own references the pooled ghost counter of a
    handle is the sum, over all threads, of the references each of them holds (the creator's included) -/
theorem user_refs_are_held {g : GState} (hr : TReach g) (h : Nat) : (g.s.hdl h).userRefs = heldBy g h :=
  hr.inv.2.oU h

/-- … so `refcount_is_holders` reads literally: `ref_count` = number of outstanding references =
    Σ over threads of the references they hold + the described thread's own one -/
theorem refcount_is_outstanding_references {g : GState} (hr : TReach g) (h : Nat) (hf : (g.s.hdl h).freed = false) :
    (g.s.hdl h).refCount = ((heldBy g h + (if (g.s.hdl h).threadRef then 1 else 0) : Nat) : Int) := by
  have := refcount_is_holders hr.inv.1.reach h hf
  rw [this, holders, user_refs_are_held hr h]

/-- the per-thread discipline is a special case of the pooled one (which also allows handing a reference
    from one thread to another) -/
theorem per_thread_discipline_implies_pooled {g : GState} {e : Ev} (hr : TReach g) (hp : PermittedT g e) :
    Permitted g.s e ∧ DReach g.s :=
  ⟨hp.permitted hr.inv.2, hr.inv.1⟩

/-- `no_use_after_free` for the per-thread discipline: when every thread uses only references it holds
    itself, no event reads or writes a freed `PUThread` block -/
theorem no_use_after_free_per_thread {g : GState} {e : Ev} (hr : TReach g) (hp : PermittedT g e) :
    ∀ h, gstep g e ≠ .error (.useAfterFree h) := by
  intro h hs
  unfold gstep at hs
  split at hs
  · cases hs
  · rename_i x hx; injection hs with hs; subst hs
    exact no_use_after_free hr.inv.1 (hp.permitted hr.inv.2) h hx

/-! ## `p_uthread_local_free` (repaired code) and the F10 repair -/

/-- `p_uthread_local_free (k)` releases the wrapper and, if `k` ever got a native key, exactly that one:
    it was alive with its block allocated (so this is no second delete / free), afterwards it is deleted
    and its block freed, both logs grow by exactly it; nothing else is touched — no other native key, no
    other wrapper, no handle, thread, TLS cell, notifier call or handle free -/
theorem local_free_releases_native_key {s s' : State} {a k : Nat} (hr : Reach s) (hs : step s (.localFree a k) = .ok s') :
    (s.key k).wrapperFreed = false ∧ (s'.key k).wrapperFreed = true ∧ (s'.key k).published = (s.key k).published ∧
    (∀ n, (s.key k).published = some n →
      (s.nkey n).live = true ∧ (s.nkey n).blockFreed = false ∧
      (s'.nkey n).live = false ∧ (s'.nkey n).blockFreed = true ∧
      s'.keyDelLog = s.keyDelLog ++ [n] ∧ s'.blockFreeLog = s.blockFreeLog ++ [n] ∧
      ∀ m, m ≠ n → s'.nkey m = s.nkey m) ∧
    ((s.key k).published = none → s'.nkey = s.nkey ∧ s'.keyDelLog = s.keyDelLog ∧ s'.blockFreeLog = s.blockFreeLog) ∧
    (∀ j, j ≠ k → s'.key j = s.key j) ∧
    s'.hdl = s.hdl ∧ s'.thr = s.thr ∧ s'.tls = s.tls ∧ s'.dtorLog = s.dtorLog ∧ s'.freeLog = s.freeLog ∧
    s'.nN = s.nN ∧ s'.nK = s.nK := by
  obtain ⟨hk, _⟩ := hr.inv
  obtain ⟨_, _, _, hwf, ⟨hpub, rfl⟩ | ⟨n, hpub, rfl⟩⟩ := localFree_ok hs
  · refine ⟨hwf, by simp, by simp, ?_, fun _ => ⟨rfl, rfl, rfl⟩, ?_, rfl, rfl, rfl, rfl, rfl, rfl, rfl⟩
    · intro n hn; rw [hpub] at hn; cases hn
    · intro j hj; simp only; rw [upd_ne _ _ hj]
  · have hl := (hk.kP k n hpub).2.2 hwf
    refine ⟨hwf, by simp, by simp, ?_, ?_, ?_, rfl, rfl, rfl, rfl, rfl, rfl, rfl⟩
    · intro m hm
      rw [hpub] at hm; injection hm with hm; subst hm
      refine ⟨hl.1, hl.2, by simp [relN, localFreeDeletesKey], by simp [relN, localFreeFreesBlock],
        by simp [localFreeDeletesKey], by simp [localFreeFreesBlock], ?_⟩
      intro j hj; simp only; rw [upd_ne _ _ hj]
    · intro hn; rw [hpub] at hn; cases hn
    · intro j hj; simp only; rw [upd_ne _ _ hj]

/-- over any history every native key is deleted at most once and its block freed at most once (by the
    loser of the publication race or by `p_uthread_local_free`), and the two logs are exactly the native
    keys that are no longer alive / whose block is gone -/
theorem native_release_once {s : State} (hr : Reach s) :
    s.keyDelLog.Nodup ∧ s.blockFreeLog.Nodup ∧
    (∀ n, n ∈ s.keyDelLog ↔ n < s.nN ∧ (s.nkey n).live = false) ∧
    (∀ n, n ∈ s.blockFreeLog ↔ n < s.nN ∧ (s.nkey n).blockFreed = true) :=
  ⟨hr.ninv.dN, hr.ninv.bN, hr.ninv.dL, hr.ninv.bL⟩

/-- source-shape obligations of the F10 repair (facts regenerated from `puthread.c` on every run):
    the proxy reads its TLS slot back after storing the handle and drops the thread's own reference itself
    when the store did not take; `p_uthread_current` checks the store of a fresh handle.  The machine above
    assumes that the own reference of a started library thread is always given up — by the library key's
    destructor (`threadEnd`) when the slot holds the handle; these facts cover the case in which it does not
    (an allocation failure inside the lazy key creation, outside C05's histories). -/
theorem proxy_checks_its_slot :
    proxyReadsBack = true ∧ proxyUnrefsWhenNotStored = true ∧ currentChecksStore = true := by decide

/-- source-shape obligations behind the `join`, `exit` and `createBegin` events (facts regenerated from `puthread.c` /
    `puthread-posix.c` on every run).  The machine's `join` is enabled only once the target has ended and reads the code in
    that state: this is `p_uthread_join` only if the code is read AFTER `p_uthread_wait_internal` returned, that call is a
    plain `pthread_join` on the handle's native id, and nothing in the module detaches, cancels or joins with a time limit.
    `exit` records the code before the native exit; `p_uthread_create` is `p_uthread_create_full` with default priority and
    stack; the native thread is joinable iff the handle says so.  A gated history sees a violation of any of these only
    when a join is issued before the target ended (`jbegin` of the harness), so they are kept as obligations as well. -/
theorem join_exit_source_shape :
    joinWaitsBeforeReadingCode = true ∧ waitIsNativeJoin = true ∧ exitStoresCodeBeforeNativeExit = true ∧
    createIsCreateFullDefault = true ∧ nativeDetachStateFollowsJoinable = true := by decide

set_option linter.unusedSimpArgs false in
/-- a join issued before the target has ended does not complete, in any state: on a joinable handle whose thread has not
    ended the machine's `join` is not an enabled event (the caller stays inside `pthread_join`).  Together with
    `join_code`: whenever the join does complete, the thread has ended and the result is its exit code. -/
theorem join_blocks_until_ended {s : State} {a h : Nat} (hf : (s.hdl h).freed = false) (hj : (s.hdl h).joinable = true)
    (hp : (s.thr (s.hdl h).thread).phase ≠ .ended) : step s (.join a h) = .error .notEnabled := by
  simp only [step, join]
  split
  · rfl
  · simp [hf, hj, hp]

/-- … and a join that was issued early and completes later yields the code whatever happened in between: for every
    continuation `es` of the history after which the join is enabled, its answer is the argument of the target's `exit`
    (0 for a plain return) -/
theorem early_join_code {s s1 s' : State} {a h : Nat} (es : List Ev) (hr : Reach s) (hrun : run s es = .ok s1)
    (hj : (s1.hdl h).joinable = true) (hs : step s1 (.join a h) = .ok s') :
    (s1.thr (s1.hdl h).thread).phase = .ended ∧
    s'.joinLog = s1.joinLog ++ [(a, h, ((s1.thr (s1.hdl h).thread).exitArg).getD 0)] := by
  have hr1 : Reach s1 := by
    clear hj hs
    induction es generalizing s with
    | nil => simp [run] at hrun; subst hrun; exact hr
    | cons e r ih =>
      simp only [run] at hrun
      split at hrun
      · cases hrun
      · rename_i s2 h2; exact ih (.step e hr h2) hrun
  obtain ⟨hlog, hend, _⟩ := join_code hr1 hs
  exact ⟨(hend hj).1, by simpa [hj] using hlog⟩

/-- the start-up handshake as an enabledness fact: the proxy does not get past the creation spinlock (into the thread
    function) while a creator is inside the critical section of `p_uthread_create_full` — the `create … x` histories of the
    harness put the child exactly there -/
theorem start_waits_for_creator {s s' : State} {t : Nat} (hs : step s (.start t) = .ok s') : s.spin = none := by
  obtain ⟨_, _, _, _, _, _, _, hspin, _, _⟩ := start_ok hs
  exact hspin

/-! ## non-vacuity: concrete histories with two library threads

`demo`: a key with a notifier; a joinable thread T1 (handle 0) and a detached thread T2 (handle 1); both
proxies race on the first use of the library key (T2 wins, T1 deletes its key); the creator gives up the
detached handle while T2 runs; T1 stores 5, replaces it by 6, exits with −3; T2 stores 7 and returns; the
creator joins T1 and drops the last reference. -/

def demo : List Ev := [
  .localNew 0 true,
  .createBegin 0 true false, .createEnd 0,
  .createBegin 0 false false, .createEnd 0,
  .keyCreate 1 0, .keyCreate 2 0, .keyCas 2 0, .keyCas 1 0,
  .start 1, .start 2,
  .unref 0 1,
  .keyCreate 1 1, .keyCas 1 1, .setLocal 1 1 5, .replaceLocal 1 1 6,
  .setLocal 2 1 7, .getLocal 1 1, .getLocal 2 1,
  .exit 1 (-3), .threadEnd 1,
  .ret 2, .threadEnd 2,
  .join 0 0, .unref 0 0 ]

/-- free log, notifier log, join results, get results, published native key / losers of the library key -/
def obs (es : List Ev) :
    Option (List Nat × List (Nat × Nat × Nat) × List (Nat × Nat × Int) × List (Nat × Nat × Nat) × Option Nat × List Nat) :=
  match run init es with
  | .ok s => some (s.freeLog, s.dtorLog, s.joinLog, s.getLog, (s.key 0).published, (s.key 0).losers)
  | .error _ => none

/-- the history is enabled throughout; handle 1 is freed by T2's end, handle 0 by the last unref; the
    notifier ran for 5 (replaced) and for 6 and 7 (left at exit), never for the value `set` overwrote;
    join gives −3; each thread reads its own value; native key 1 won, key 0 lost -/
example : obs demo = some ([1, 0], [(1, 1, 5), (1, 0, 1), (1, 1, 6), (2, 0, 2), (2, 1, 7)], [(0, 0, -3)],
    [(1, 1, 6), (2, 1, 7)], some 1, [0]) := by rfl

/-- … and it obeys the reference discipline, so its final state is in `DReach` (the hypotheses of the
    theorems above are satisfiable by a history with two threads) -/
example : checkDisc init demo = true := by rfl

example : ∃ s, DReach s ∧ s.freeLog = [1, 0] ∧ (s.thr 1).phase = .ended ∧ (s.thr 2).phase = .ended := by
  cases h : run init demo with
  | error e => have : (obs demo).isSome = false := by simp [obs, h]
               exact absurd this (by rw [show obs demo = some _ from by rfl]; simp)
  | ok s =>
    refine ⟨s, DReach.run .init (checkDisc_sound (by rfl)) h, ?_, ?_, ?_⟩
    · have : (obs demo).map (·.1) = some [1, 0] := by rfl
      simpa [obs, h] using this
    · have : (match run init demo with | .ok s => decide ((s.thr 1).phase = .ended) | .error _ => false) = true := by rfl
      simpa [h] using this
    · have : (match run init demo with | .ok s => decide ((s.thr 2).phase = .ended) | .error _ => false) = true := by rfl
      simpa [h] using this

/-- an undisciplined history does hit a freed block: after the creator's reference is gone a second
    `unref` takes the thread's own, and the thread's end then touches freed memory -/
example : run init [.createBegin 0 false false, .createEnd 0, .keyCreate 1 0, .keyCas 1 0, .start 1,
    .unref 0 0, .unref 0 0, .ret 1, .threadEnd 1] = .error (.useAfterFree 0) := by rfl

/-- a join before the target ended is not enabled (created / running / finished-but-in-its-destructors), it is after the
    end and then yields the code; the proxy is not enabled inside the creator's critical section, though its lazy creation of
    the library key's native key is -/
example : (match run init [.createBegin 0 true false, .createEnd 0] with
    | .ok s => step s (.join 0 0) | .error e => .error e) = .error .notEnabled := by rfl
example : (match run init [.createBegin 0 true false, .createEnd 0, .keyCreate 1 0, .keyCas 1 0, .start 1, .exit 1 7] with
    | .ok s => step s (.join 0 0) | .error e => .error e) = .error .notEnabled := by rfl
example : (match run init [.createBegin 0 true false, .createEnd 0, .keyCreate 1 0, .keyCas 1 0, .start 1, .exit 1 7, .threadEnd 1, .join 0 0] with
    | .ok s => some s.joinLog | .error _ => none) = some [(0, 0, 7)] := by rfl
example : (match run init [.createBegin 0 true false, .keyCreate 1 0, .keyCas 1 0] with
    | .ok s => step s (.start 1) | .error e => .error e) = .error .notEnabled := by rfl
example : (match run init [.createBegin 0 true false, .keyCreate 1 0, .keyCas 1 0, .createEnd 0, .start 1] with
    | .ok s => some ((s.thr 1).phase, (s.hdl 0).refCount) | .error _ => none) = some (.running, 2) := by rfl

/-- creations that fail: handle ids 0 and 2 are the blocks of the two failed calls (released inside the call, in that
    order, once each), handle 1 is the thread made in between; nothing of the failed calls is alive, no thread 2 exists,
    the history obeys the discipline, and the reference answers the same -/
def demoFail : List Ev := [
  .createFail 0, .createBegin 0 true false, .createEnd 0, .createFail 0,
  .keyCreate 1 0, .keyCas 1 0, .start 1, .joinFail 0 1, .exit 1 7, .joinFail 0 1, .threadEnd 1, .join 0 1, .unref 0 1 ]

example : (match run init demoFail with
    | .ok s => some (s.freeLog, s.joinLog, s.nH, s.nT, (s.hdl 0).freed, (s.hdl 2).freed, s.spin.isNone)
    | .error _ => none) = some ([0, 2, 1], [(0, 1, 0), (0, 1, 7), (0, 1, 7)], 3, 2, true, true, true) := by rfl
example : checkDisc init demoFail = true := by rfl
example : checkDiscT ginit demoFail = true := by rfl
example : PV.UThreadSpec.obsRun init demoFail = PV.UThreadSpec.specRun {} demoFail := by rfl
/-- the block of a failed creation is dangling for everybody: naming it is a fault of the caller, and outside the discipline -/
example : (match run init [.createFail 0] with
    | .ok s => (step s (.ref 0 0), decide (Permitted s (.ref 0 0)), decide (Permitted s (.unref 0 0)))
    | .error e => (.error e, true, true)) = (.error (.useAfterFree 0), false, false) := by rfl
/-- a creation is not possible (also not a failing one) while another creator is inside the critical section -/
example : (match run init [.spawn, .createBegin 0 true false] with
    | .ok s => step s (.createFail 1) | .error e => .error e) = .error .notEnabled := by rfl
/-- the failing join is an event only for joinable handles (on a detached one the native call is not made) -/
example : (match run init [.createBegin 0 false false, .createEnd 0] with
    | .ok s => step s (.joinFail 0 0) | .error e => .error e) = .error .notEnabled := by rfl

/-- a key whose native key cannot be made: `set 5` stores nothing, `get` reads NULL, `replace` calls no notifier; once the
    creation works the key behaves as new.  `p_uthread_current` of the initial thread failing twice: handles 0 and 1 are
    the two released blocks, the third call yields handle 2 -/
example : (match run init [.localNew 0 true, .tlsFail 0 1 false, .tlsFail 0 1 true, .tlsFail 0 1 false, .keyCreate 0 1, .keyCas 0 1,
      .getLocal 0 1, .setLocal 0 1 5, .replaceLocal 0 1 6, .currentFail 0, .keyCreate 0 0, .keyCas 0 0, .currentFail 0, .current 0] with
    | .ok s => some (s.getLog, s.dtorLog, s.freeLog, s.curLog, s.nN)
    | .error _ => none) = some ([(0, 1, 0), (0, 1, 0)], [(0, 1, 5)], [0, 1], [(0, 2)], 2) := by rfl
example : PV.UThreadSpec.obsRun init [.localNew 0 true, .tlsFail 0 1 false, .tlsFail 0 1 true, .currentFail 0, .keyCreate 0 0, .keyCas 0 0,
      .currentFail 0, .current 0] =
    PV.UThreadSpec.specRun {} [.localNew 0 true, .tlsFail 0 1 false, .tlsFail 0 1 true, .currentFail 0, .keyCreate 0 0, .keyCas 0 0,
      .currentFail 0, .current 0] := by rfl
/-- neither failure is an event once the key has a native key / the thread has its handle stored -/
example : (match run init [.localNew 0 true, .keyCreate 0 1, .keyCas 0 1] with
    | .ok s => step s (.tlsFail 0 1 true) | .error e => .error e) = .error .notEnabled := by rfl
example : (match run init [.keyCreate 0 0, .keyCas 0 0, .current 0] with
    | .ok s => step s (.currentFail 0) | .error e => .error e) = .error .notEnabled := by rfl

/-- the witness: thread 1 (handle 0, joinable) starts without its slot stored, calls `p_uthread_exit (7)` — which returns (the
    call makes the foreign-style handle 1) —, returns from its function (the proxy drops the thread's reference: nothing is
    freed, the creator still holds one), ends (handle 1 goes with the library key's destructor); the join yields 0, not 7; the
    creator's unref frees handle 0: each handle exactly once.  With the creator's unref first, the proxy's unref is the one
    that frees. -/
def demoUnstored : List Ev := [
  .createBegin 0 true false, .createEnd 0, .startUnstored 1, .keyCreate 1 0, .keyCas 1 0, .exit 1 7, .retUnstored 1 0, .threadEnd 1,
  .join 0 0, .unref 0 0 ]

example : (match run init demoUnstored with
    | .ok s => some (s.joinLog, s.freeLog, s.dtorLog, (s.thr 1).phase, (s.hdl 0).retCode)
    | .error _ => none) = some ([(0, 0, 0)], [1, 0], [(1, 0, 2)], .ended, 0) := by rfl
example : checkDisc init demoUnstored = true := by rfl
example : checkDiscT ginit demoUnstored = true := by rfl
example : PV.UThreadSpec.obsRun init demoUnstored = PV.UThreadSpec.specRun {} demoUnstored := by rfl
example : (match run init [.createBegin 0 false false, .createEnd 0, .startUnstored 1, .unref 0 0, .retUnstored 1 0, .threadEnd 1] with
    | .ok s => some (s.freeLog, (s.hdl 0).refCount) | .error _ => none) = some ([0], 0) := by rfl
/-- a stored thread does not return through the proxy's unref, an unstored one not through the plain return -/
example : (match run init [.createBegin 0 true false, .createEnd 0, .startUnstored 1] with
    | .ok s => step s (.ret 1) | .error e => .error e) = .error .notEnabled := by rfl
example : (match run init [.createBegin 0 true false, .createEnd 0, .keyCreate 1 0, .keyCas 1 0, .start 1] with
    | .ok s => step s (.retUnstored 1 0) | .error e => .error e) = .error .notEnabled := by rfl

/-- the witness for `replace_setspecific_failure_destroys_twice`: thread 1 stores 5 under a key with a notifier; its
    `replace_local (6)` fails in the native store: the notifier has run for 5, the slot still holds 5 (`get` reads 5); at the
    thread's end the notifier runs for 5 again -/
example : (match run init [.localNew 0 true, .createBegin 0 true false, .createEnd 0, .keyCreate 1 0, .keyCas 1 0, .start 1,
      .keyCreate 1 1, .keyCas 1 1, .setLocal 1 1 5, .storeFail 1 1 true, .getLocal 1 1, .storeFail 1 1 false, .ret 1, .threadEnd 1] with
    | .ok s => some (s.dtorLog.filter (fun x => x.2.1 ≠ 0), s.getLog)
    | .error _ => none) = some ([(1, 1, 5), (1, 1, 5)], [(1, 1, 5)]) := by rfl

/-- a key released with `p_uthread_local_free` while a thread still holds a value under it: the native key is
    deleted and its block freed once, and the thread's end calls no notifier for the dropped value 5 (only the
    library key's own destructor runs) -/
example : (match run init [.localNew 0 true, .createBegin 0 true false, .createEnd 0, .keyCreate 1 0, .keyCas 1 0, .start 1,
      .keyCreate 1 1, .keyCas 1 1, .setLocal 1 1 5, .localFree 0 1, .ret 1, .threadEnd 1] with
    | .ok s => some (s.dtorLog, s.keyDelLog, s.blockFreeLog, (s.nkey 1).live, (s.nkey 1).blockFreed)
    | .error _ => none) = some ([(1, 0, 1)], [1], [1], false, true) := by rfl

/-- `demo` also obeys the per-thread discipline (the creator, thread 0, holds and gives up both user
    references); in its final state nobody holds anything -/
example : checkDiscT ginit demo = true := by rfl
example : (match grun ginit (demo.take 11) with
    | .ok g => some (g.owns 0 0, g.owns 0 1, g.owns 1 0, heldBy g 0, (g.s.hdl 0).refCount)
    | .error _ => none) = some (1, 1, 0, 1, 2) := by rfl

/-- the reference on `demo`: the same 25 answers as the machine, e.g. the last three (thread 2 ends: handle 1
    released, notifier for 7; join gives −3; last unref releases handle 0) -/
example : PV.UThreadSpec.obsRun init demo = PV.UThreadSpec.specRun {} demo := by rfl
example : ((PV.UThreadSpec.specRun {} demo).drop 22).map (fun o => (o.ret, o.live, o.freed, o.dtor)) =
    [([], [0], [1], [(2, 1, 7)]), ([-3], [0], [], []), ([], [], [0], [])] := by rfl

/-- init immediately followed by shutdown: the native key made by the `get_local` inside shutdown is released
    again; and shutdown after `demo` (all threads ended, but the user key 1 never released): the library key's
    native keys are gone, the user key's native key 2 is what remains -/
example : (match shutdown init 0 with
    | .ok s => some (s.nN, (s.nkey 0).live, (s.nkey 0).blockFreed, s.keyDelLog, s.blockFreeLog)
    | .error _ => none) = some (1, false, true, [0], [0]) := by rfl
example : (match run init demo with
    | .ok s => (match shutdown s 0 with
      | .ok s' => some ((List.range s'.nN).filter fun n => (s'.nkey n).live, s'.keyDelLog)
      | .error _ => none)
    | .error _ => none) = some ([2], [0, 1]) := by rfl

end PV.UThread

import PV.Lemmas.Tree.Morris
import PV.Generated.TreeLoops
/-!
# C12 (heap level) — `p_tree_foreach` visits the in-order prefix and restores every link

`p_tree_foreach` (`/repo/src/ptree.c`) is a threaded in-order traversal: it writes into the tree
while walking it.  `PV/Model/Tree/Morris.lean` transliterates its loop over a heap of nodes; here:
for every tree, laid out anywhere in a heap at pairwise distinct addresses (`Repr`), and every stop
point `j` of the callback (`j = 0`: never stops), the loop terminates within `2 * size + 1`
iterations, never follows a pointer to a missing node, the callback sees exactly
`BT.foreachStop t j`, and the final heap is *literally* the initial heap (`h' = h`, equality of the
whole cell list, not only of the reachable part), `mod_counter` is back to 0.
-/
namespace PV.Tree.Morris
open PV.Tree

variable {κ ν : Type}

/-- final local state: heap restored, no thread outstanding, the callback saw `foreachStop t j`,
    and it was called `min j size` times (`size` times if it never stops). -/
theorem morrisRun_spec {h : Heap κ ν} {root : Option Nat} {t : BT κ ν} (hr : Repr h root t)
    (j fuel : Nat) (hf : 2 * t.size + 1 ≤ fuel) :
    ∃ c lg, morrisRun h root j fuel = .done ⟨h, c, 0, lg⟩ ∧ lg.visited = t.foreachStop j ∧
      lg.calls = (if j = 0 then t.size else min j t.size) := by
  obtain ⟨pt, rfl, hrp, hnd⟩ := hr
  have hvis : ∀ xs : List (κ × ν), xs = pt.erase.toList →
      (visitL j ⟨false, [], 0⟩ xs).visited = pt.erase.foreachStop j ∧
      (visitL j ⟨false, [], 0⟩ xs).calls = (if j = 0 then pt.erase.size else min j pt.erase.size) := by
    intro xs hxs
    have hlen : xs.length = pt.erase.size := by
      subst hxs
      generalize pt.erase = t
      induction t with
      | nil => rfl
      | node l k v r ihl ihr => simp [BT.toList, BT.size, ihl, ihr]; omega
    have := visitL_visited j (⟨false, [], 0⟩ : Log κ ν) xs rfl rfl (by simp; omega)
    subst hxs
    refine ⟨by simpa [BT.foreachStop] using this.1, ?_⟩
    rw [this.2, hlen]; simp
  cases pt with
  | nil =>
    simp only [ReprP] at hrp
    subst hrp
    refine ⟨none, ⟨false, [], 0⟩, rfl, ?_, ?_⟩
    · simp [BT.foreachStop, PT.erase, BT.toList]
    · simp [PT.erase, BT.size]
  | node a l k v r =>
    have hroot : root = some a := hrp.1
    subst hroot
    have hsz := PT.erase_size (PT.node a l k v r)
    have hit := PT.iters_le (PT.node a l k v r)
    obtain ⟨f, hfuel⟩ : ∃ f, fuel = (PT.node a l k v r).iters + (f + 1) :=
      ⟨fuel - (PT.node a l k v r).iters - 1, by omega⟩
    simp only [morrisRun]
    rcases trav j fuel (PT.node a l k v r) h (some a) none 0 ⟨false, [], 0⟩ hrp hnd (by omega)
      (Int.le_refl 0) with h1 | ⟨_, _, c, h1⟩
    · refine ⟨none, _, ?_, hvis _ rfl⟩
      conv => lhs; arg 3; rw [hfuel]
      rw [h1, loop_succ]
      rfl
    · refine ⟨c, _, ?_, hvis _ rfl⟩
      conv => lhs; arg 3; rw [hfuel]
      rw [h1]

/-- **`p_tree_foreach` restores the tree and visits the in-order prefix.**
    From any heap in which `root` points to a well-formed tree `t`, for every stop point `j`, with any
    fuel `≥ 2 * size + 1` the run finishes (no fault, no timeout), the heap afterwards is equal to the
    heap before — `h' = h` literally — and the callback saw exactly `t.foreachStop j`. -/
theorem foreach_restores {h : Heap κ ν} {root : Option Nat} {t : BT κ ν} (hr : Repr h root t)
    (j : Nat) :
    ∃ fuel h' visited, morrisForeach h root j fuel = .done (h', visited) ∧ h' = h ∧
      visited = t.foreachStop j := by
  obtain ⟨c, lg, hrun, hv, _⟩ := morrisRun_spec hr j (2 * t.size + 1) (Nat.le_refl _)
  exact ⟨2 * t.size + 1, h, lg.visited, by simp [morrisForeach, hrun, Res.map], rfl, hv⟩

/-- the same with the explicit fuel bound -/
theorem foreach_restores_bound {h : Heap κ ν} {root : Option Nat} {t : BT κ ν}
    (hr : Repr h root t) (j fuel : Nat) (hf : 2 * t.size + 1 ≤ fuel) :
    morrisForeach h root j fuel = .done (h, t.foreachStop j) := by
  obtain ⟨c, lg, hrun, hv, _⟩ := morrisRun_spec hr j fuel hf
  simp [morrisForeach, hrun, Res.map, hv]

/-- **no NULL / dangling dereference**, whatever the fuel: the run never reaches `fault`
    (with too little fuel it is `timeout`, otherwise `done`). -/
theorem foreach_no_fault {h : Heap κ ν} {root : Option Nat} {t : BT κ ν} (hr : Repr h root t)
    (j fuel : Nat) : morrisForeach h root j fuel ≠ .fault := by
  intro hfault
  have hrunf : morrisRun h root j fuel = .fault := by
    cases hrun : morrisRun h root j fuel <;> simp [morrisForeach, hrun, Res.map] at hfault
    rfl
  obtain ⟨c, lg, hrun, _⟩ :=
    morrisRun_spec hr j (max fuel (2 * t.size + 1)) (Nat.le_max_right _ _)
  cases root with
  | none => simp [morrisRun] at hrunf
  | some a =>
    simp only [morrisRun] at hrunf hrun
    have := loop_mono hrunf (by simp) (Nat.le_max_left fuel (2 * t.size + 1))
      (Nat.le_max_left fuel (2 * t.size + 1))
    rw [this] at hrun
    cases hrun

/-- termination + absence of faults in one statement: every fuel gives `timeout` or the final result,
    and `2 * size + 1` is enough -/
theorem foreach_total {h : Heap κ ν} {root : Option Nat} {t : BT κ ν} (hr : Repr h root t)
    (j fuel : Nat) :
    morrisForeach h root j fuel = .timeout ∨
    morrisForeach h root j fuel = .done (h, t.foreachStop j) := by
  have hbig := foreach_restores_bound hr j (max fuel (2 * t.size + 1)) (Nat.le_max_right _ _)
  cases hrun : morrisRun h root j fuel with
  | timeout => left; simp [morrisForeach, hrun, Res.map]
  | fault => exact absurd (by simp [morrisForeach, hrun, Res.map]) (foreach_no_fault hr j fuel)
  | done s =>
    right
    cases root with
    | none => simp only [morrisForeach, hrun, Res.map]; simp [morrisRun] at hrun; subst hrun
              simpa [morrisForeach, morrisRun, Res.map] using hbig
    | some a =>
      simp only [morrisRun] at hrun
      have := loop_mono hrun (by simp) (Nat.le_max_left fuel (2 * t.size + 1))
        (Nat.le_max_left fuel (2 * t.size + 1))
      simp only [morrisForeach, morrisRun, this, Res.map] at hbig
      simp only [morrisForeach, morrisRun, hrun, Res.map]
      exact hbig

/-! ### a concrete 5-node heap

```
            3 @0
           /    \
        1 @1    4 @2
       /    \
    0 @3    2 @4          cell 5 is empty
```
keys 0…4, values key+10. -/

def h5 : Heap Nat Nat := ⟨[
  some ⟨some 1, some 2, 3, 13⟩,
  some ⟨some 3, some 4, 1, 11⟩,
  some ⟨none, none, 4, 14⟩,
  some ⟨none, none, 0, 10⟩,
  some ⟨none, none, 2, 12⟩,
  none]⟩

def t5 : BT Nat Nat :=
  .node (.node (.node .nil 0 10 .nil) 1 11 (.node .nil 2 12 .nil)) 3 13 (.node .nil 4 14 .nil)

example : Repr h5 (some 0) t5 :=
  ⟨.node 0 (.node 1 (.node 3 .nil 0 10 .nil) 1 11 (.node 4 .nil 2 12 .nil)) 3 13 (.node 2 .nil 4 14 .nil),
   by decide, by simp [ReprP, h5, Heap.get], by decide⟩

example : morrisForeach h5 (some 0) 0 11 = .done (h5, [(0, 10), (1, 11), (2, 12), (3, 13), (4, 14)]) := by
  decide
example : morrisForeach h5 (some 0) 2 11 = .done (h5, [(0, 10), (1, 11)]) := by decide
example : morrisForeach h5 (some 0) 5 11 = .done (h5, [(0, 10), (1, 11), (2, 12), (3, 13), (4, 14)]) := by
  decide
/-- stop at the 4th call: that is at the root, on the right spine, with no thread outstanding —
    the `return` in the loop body fires and `cur_node` is still non-`NULL` -/
example : (morrisRun h5 (some 0) 4 11).map (fun s => (s.heap == h5, s.cur, s.modCounter, s.log.visited))
    = .done (true, some 2, 0, [(0, 10), (1, 11), (2, 12), (3, 13)]) := by decide
/-- too little fuel is a timeout, not a fault; a dangling root is a fault -/
example : morrisForeach h5 (some 0) 0 7 = .timeout := by decide
example : morrisForeach h5 (some 5) 0 11 = .fault := by decide
/-- the heap really is modified on the way: the first iteration threads node 4 (key 2) to the root -/
example : body 0 11 ⟨h5, some 0, 0, ⟨false, [], 0⟩⟩ =
    .done (.next ⟨h5.set 4 ⟨none, some 0, 2, 12⟩, some 1, 1, ⟨false, [], 0⟩⟩) := by decide

end PV.Tree.Morris

import PV.Model.Ini
import PV.Spec.Ini
namespace PV.Ini
/-- the patterns are the format strings of the current source (regenerated on every run) -/
theorem patterns_are_the_source_formats :
    fmtOf patSection = PV.Generated.Ini.fmtSection ∧ kvPatterns.map fmtOf = PV.Generated.Ini.fmtKv := by
  decide
end PV.Ini

import PV.Lemmas.Ini
/-!
# C16 — INI parser

Model `PV.Model.Ini` (transliteration of `p_ini_file_parse` and the getters, over `List UInt8`),
spec `PV.Spec.Ini` (documented format as an AST, `render`, `meaning`, `WF`).

**Totality.** Every function of the model is defined by structural recursion on a list (`splitAux`,
`scan`, `chompStart`, `chompEnd`, `kvCascade`, `listLoop`, `List.foldl` over the chunks …): there is no
fuel, no `partial`, no well-founded recursion.  That Lean accepted the definitions *is* the proof that
parsing terminates on every byte string; the theorems below therefore quantify over all `input : Bytes`.

**Life cycle.** `Handle` / `fileParse` model the object (section (e)); `fileParseClose` additionally scripts the result of
the final `fclose` and counts the `fclose` calls and warning lines (`close_failure_is_harmless`; op `lifec` of the check).

Not covered here (see the check's assumptions): glibc's `sscanf`/`fgets`/`isspace`/`atoi` agreeing
with `scan`/`splitLines`/`isSpace`/`atoi`; `p_strtod` (modelled on `Float`, compared bit for bit by the
differential run only, no theorem).
-/
namespace PV.Ini
open PV.IniSpec (Doc Sec Style WF render meaning meaningOf)

/-! ## tie to the source (regenerated facts) -/

/-- the `sscanf` patterns of the model are the format strings of the current source, in cascade order -/
theorem patterns_are_the_source_formats :
    fmtOf patSection = PV.Generated.Ini.fmtSection ∧ kvPatterns.map fmtOf = PV.Generated.Ini.fmtKv := by
  decide

/-- buffer sizes, the read loop and the comment guard are the ones the theorems assume; the functions that are
modelled by hand (getters, look-ups, life cycle, string helpers) have the text the model was written from -/
theorem source_facts :
    PV.IniSpec.maxLine = PV.Generated.Ini.maxLine ∧
    PV.Generated.Ini.lineBufSize = PV.Generated.Ini.maxLine + 1 ∧
    PV.Generated.Ini.fgetsWholeBuffer = true ∧
    PV.Generated.Ini.commentSkip = true ∧
    PV.Generated.Ini.handModelledTextKnown = true := by
  decide

/-! ## (a) robustness, for all byte strings -/

/-- Every string the loop copies into one of its fixed buffers (`src_line`, `key`, `value`, each
`P_INI_FILE_MAX_LINE + 1` bytes) has at most `P_INI_FILE_MAX_LINE` bytes, so the terminating NUL fits:
the chunk `fgets` stores, `dst_line`, whatever any of the four `sscanf` calls stores through `%[…]`
(also in calls that end up failing), and the chomped copies `strcpy`'d back.  In particular the three
"This should not happen" truncations are dead code. -/
theorem line_fits (input : Bytes) :
    ∀ chunk ∈ splitLines input,
      chunk.length ≤ maxLine ∧ (lineOf chunk).length ≤ maxLine ∧
      ∀ fmt ∈ patSection :: kvPatterns, ∀ o ∈ scan fmt (lineOf chunk),
        o.length ≤ maxLine ∧ (chomp o).length ≤ maxLine := by
  intro chunk hc
  have h1 := splitLines_length input chunk hc
  have h2 := lineOf_length_le chunk
  refine ⟨h1, by omega, ?_⟩
  intro fmt _ o ho
  have h3 := scan_length_le fmt (lineOf chunk) o ho
  have h4 := chomp_length_le o
  omega

/-- Names, keys and values stored in the parsed object have at most `P_INI_FILE_MAX_LINE` bytes, and an
item `p_ini_file_parameter_list` copies into its `buf[P_INI_FILE_MAX_LINE + 1]` is no longer than the value. -/
theorem stored_fits (input : Bytes) :
    (∀ s ∈ parse input, s.name.length ≤ maxLine ∧
        ∀ kv ∈ s.keys, kv.1.length ≤ maxLine ∧ kv.2.length ≤ maxLine) ∧
    ∀ v : Bytes, ∀ it ∈ toList v, it.length ≤ v.length :=
  ⟨parseWith_fits _ input, toList_fits⟩

/-- For every input the parsed object is consistent: every listed section has at least one key, every
listed key exists and has a retrievable string value. -/
theorem consistent (input : Bytes) :
    let f := parse input
    ∀ n ∈ sections f, keys f n ≠ [] ∧
      ∀ k ∈ keys f n, isKeyExists f n k = true ∧ (parameterString f n k none).isSome = true := by
  intro f n hn
  have := consistent_of_ok f (parseWith_ok _ input) n hn
  refine ⟨this.1, fun k hk => ⟨(this.2 k hk).1, ?_⟩⟩
  rw [parameterString_none]
  exact (this.2 k hk).2

/-! ## (b) the documented grammar -/

/-- what the API shows after parsing: the listed sections, for each its listed keys (each once) with the
value `p_ini_file_parameter_string` returns -/
def parseView (input : Bytes) : List (Bytes × List (Bytes × Bytes)) := fileView (parse input)

/-- `p_ini_file_sections` lists the final section of the file first (it is appended after the loop while the
earlier ones were prepended, and the listing reverses the list), then the others in file order: the reverse
of the order in which look-ups go through the sections. -/
def listed (d : Doc) : List (Bytes × List (Bytes × Bytes)) :=
  PV.IniSpec.meaningIn d.secs (PV.IniSpec.lookupOrder d.secs).reverse

/-- … spelled out -/
theorem listed_eq (d : Doc) (init : List Sec) (last : Sec) (hs : d.secs = init ++ [last]) :
    listed d = PV.IniSpec.meaningIn d.secs [last] ++ PV.IniSpec.meaningIn d.secs init := by
  unfold listed
  rw [hs, lookupOrder_snoc]
  have e : (init.reverse ++ [last]).reverse = [last] ++ init := by simp
  rw [e]
  simp only [PV.IniSpec.meaningIn, List.filter_append, List.map_append]

/-
Full-strength statement (what pinifile.h promises):

    theorem parse_render (σ) (d : Doc) : parseView (render σ d) ~ meaning d          -- for EVERY document

It is false of the code; `parse_render_partial` proves it for the documents satisfying `IniSpec.WF`.

Part of the documents the theorem speaks about (the AST has them, `meaning` says what the API shows):
  * blank lines of any blanks, comment lines (also with '=' in them), lines before the first section;
  * LF and CR LF line ends, a final line without newline;
  * any of four byte-order marks before the first line (`Style.bom`) and at the start of any other line — header, entry,
    comment or blank line (`Line.mark` / `Header.mark`; files pasted together): it contributes nothing;
  * blanks around key, '=', value, section name; trailing comments; quoted values with comment markers, '=',
    the other quote, blanks inside (blanks directly inside the quotes are dropped: `" a "` is `a`); values with '=';
  * `key =` without any value text, also followed by a comment: the line assigns nothing (an empty value is
    written `""` or `''`) — `IniSpec.Entry.binding`;
  * repeated section headers: a repeated header starts a section of its own; both are listed, under the same
    name, and look-ups by that name see one of them — `IniSpec.seenSec`, `repeated_header_not_merged`;
  * physical lines of up to 1024 bytes, line end and byte-order mark included.
(`linesOk` also asks that a line without a mark does not start with the bytes of one, and that the first line has the
file's mark or its own, not both.  The first is no restriction on files — those bytes *are* the line's mark —, the
second is: only one mark per line is skipped, `only_one_mark_per_line_is_skipped`.)

`WF` excludes exactly:
  * F3 (repaired in the worktree; the theorem needs `Generated.Ini.commentSkip = true`): a comment line
    that contains '=' inside a section was stored as a key — `f3_unfixed_code_stores_the_comment`;
  * comment markers *after* the first non-blank byte of a line without a preceding value, e.g.
    `k # c = d` (stored as key "k # c"): the AST has no such line — `residual_comment_with_equals`;
  * a quoted value that is, blanks aside, exactly the other kind of empty quotes, `"''"` / `'""'` (emptied) —
    `quoted_empty_quotes_are_emptied`; an unquoted value starting with a quote — `unquoted_leading_quote_is_stripped`;
  * keys starting with '[' (on a line ending in ']' they are taken for a header — `bracket_key_is_a_header`);
    section names with ']' — `section_name_is_cut_at_bracket`;
  * NUL bytes; physical lines longer than 1024 bytes (split by `fgets` — `over_long_line_is_split`); two marks at the
    start of one line (`only_one_mark_per_line_is_skipped`); the UTF-32 LE mark (`utf32le_bom_dead`).
-/

/-- For a well-formed document, rendered with any byte-order mark, the API shows exactly the documented
meaning: the non-empty sections, each key once with the value of its last assignment (blanks, quotes and
trailing comments removed), nothing from comment lines, blank lines, lines without a value or the preamble —
in the listing order of `p_ini_file_sections`. -/
theorem parse_render_partial (σ : Style) (d : Doc) (hwf : WF σ d = true) :
    parseView (render σ d) = listed d :=
  fileView_parse_render σ d hwf

/-- … and up to the order of sections that is `meaning d` -/
theorem parse_render_perm (σ : Style) (d : Doc) (hwf : WF σ d = true) :
    (parseView (render σ d)).Perm (meaning d) := by
  rw [parse_render_partial σ d hwf]
  unfold listed meaning
  cases hr : d.secs.reverse with
  | nil =>
    have hs : d.secs = [] := by simpa using hr
    rw [hs]; exact List.Perm.refl _
  | cons last initRev =>
    have hs : d.secs = initRev.reverse ++ [last] := by
      have := congrArg List.reverse hr
      simpa using this
    rw [hs, lookupOrder_snoc]
    simp only [PV.IniSpec.meaningIn, List.reverse_append, List.reverse_reverse, List.reverse_cons, List.reverse_nil,
      List.nil_append, List.filter_append, List.map_append]
    exact List.perm_append_comm

/-- `parse_render_partial` as it was stated before repeated headers, `key =` and blanks inside quotes were admitted
(the former `WF` is the present one plus `Strict`: distinct section names, non-empty unquoted values, no blanks
directly inside quotes): then every section is read on its own and every value literally, and the present theorem
says what the former one said. -/
theorem parse_render_strict (σ : Style) (d : Doc) (hwf : WF σ d = true) (hst : Strict d = true) :
    meaning d = literalMeaning d.secs ∧
    parseView (render σ d) = match d.secs.reverse with
      | [] => []
      | last :: initRev => literalMeaning [last] ++ literalMeaning initRev.reverse := by
  simp only [Strict, Bool.and_eq_true, List.all_eq_true] at hst
  obtain ⟨hd, hb⟩ := hst
  have hm : ∀ secs : List Sec, (∀ s ∈ secs, s ∈ d.secs) → PV.IniSpec.meaningIn d.secs secs = literalMeaning secs := by
    intro secs hsub
    rw [meaningIn_of_distinct d.secs hd secs hsub, meaningOf_strict secs (fun s hs => hb s (hsub s hs))]
  refine ⟨hm d.secs (fun s hs => hs), ?_⟩
  rw [parse_render_partial σ d hwf]
  cases hr : d.secs.reverse with
  | nil =>
    have hs : d.secs = [] := by simpa using hr
    simp [listed, hs, PV.IniSpec.meaningIn, PV.IniSpec.lookupOrder]
  | cons last initRev =>
    have hs : d.secs = initRev.reverse ++ [last] := by
      have := congrArg List.reverse hr
      simpa using this
    rw [listed_eq d initRev.reverse last hs, hm [last] (by intro s h; rw [hs]; simp at h; simp [h]),
      hm initRev.reverse (by intro s h; rw [hs]; simp at h; simp [h])]

/-- `parse_render_partial` as it was stated before a byte-order mark was admitted at the start of every line: for a
document without marks inside (`Unmarked`; the file's own mark `σ.bom` as before) the former hypotheses — `WF` with the
former `linesOk`: every line fits the buffer and no line after the mark starts like one — are the present `WF`, and the
conclusion is the same. -/
theorem parse_render_unmarked (σ : Style) (d : Doc) (hu : Unmarked d = true)
    (hwf : (d.preamble.all (·.body.wf) && d.secs.all (fun s => s.header.wf && s.body.all (·.body.wf))
            && PV.IniSpec.eolsOk d.eols && formerLinesOk σ d) = true) :
    WF σ d = true ∧ parseView (render σ d) = listed d := by
  have h : WF σ d = true := by
    unfold WF
    rw [linesOk_unmarked σ d hu]
    exact hwf
  exact ⟨h, parse_render_partial σ d h⟩

/-- Lookups: every key of the meaning is reported present and `p_ini_file_parameter_string` returns its
value, whatever default is passed. -/
theorem lookup_render (σ : Style) (d : Doc) (hwf : WF σ d = true) (n : Bytes) (kvs : List (Bytes × Bytes))
    (hn : (n, kvs) ∈ meaning d) (k v : Bytes) (hk : (k, v) ∈ kvs) (dflt : Option Bytes) :
    let f := parse (render σ d)
    n ∈ sections f ∧ isKeyExists f n k = true ∧ parameterString f n k dflt = some v := by
  intro f
  have hperm := parse_render_perm σ d hwf
  have hmem : (n, kvs) ∈ parseView (render σ d) := hperm.mem_iff.mpr hn
  unfold parseView fileView at hmem
  simp only [List.mem_map, Prod.mk.injEq] at hmem
  obtain ⟨n', hn', rfl, hkvs⟩ := hmem
  subst hkvs
  simp only [List.mem_map, Prod.mk.injEq] at hk
  obtain ⟨k', hk', rfl, hv⟩ := hk
  have hkeys : k' ∈ keys f n' := by
    have : k' ∈ (keys (parse (render σ d)) n').eraseDups := hk'
    simpa using this
  have hc := consistent (render σ d) n' hn'
  have hsome := (hc.2 k' hkeys).2
  refine ⟨hn', (hc.2 k' hkeys).1, ?_⟩
  rw [parameterString_none] at hsome hv
  obtain ⟨w, hw⟩ := Option.isSome_iff_exists.mp hsome
  have hw' : findParameter f n' k' = some w := hw
  rw [hw'] at hv
  simp only [Option.getD_some] at hv
  subst hv
  unfold parameterString
  rw [hw']

/-! ## (c) getters -/

/-- the typed getters read the stored string through `atoi` / the boolean rule / the brace-list rule;
a missing key (or section) yields the default, and an empty list -/
theorem getter_stored (f : IniFile) (n k : Bytes) :
    (∀ v, findParameter f n k = some v →
      (∀ d, parameterString f n k d = some v) ∧ (∀ d, parameterInt f n k d = atoi v) ∧
      (∀ d, parameterBoolean f n k d = toBoolean v) ∧ parameterList f n k = toList v ∧
      isKeyExists f n k = true) ∧
    (findParameter f n k = none →
      (∀ d, parameterString f n k d = d) ∧ (∀ d, parameterInt f n k d = .val d) ∧
      (∀ d, parameterBoolean f n k d = .val d) ∧ parameterList f n k = [] ∧
      (∀ d, parameterDouble f n k d = d) ∧ isKeyExists f n k = false) := by
  constructor
  · intro v hv
    simp [parameterString, parameterInt, parameterBoolean, parameterList, isKeyExists_iff, hv]
  · intro hv
    simp [parameterString, parameterInt, parameterBoolean, parameterList, parameterDouble, isKeyExists_iff, hv]

/-- "Integer values can be written in the usual form": optional blanks, optional sign, at least one digit,
then anything that is not a digit.  The result is the decimal value, or the distinct outcome `overflow`
when it does not fit a C `int` (where `atoi` is undefined) — never a default. -/
theorem getter_int (ws : Bytes) (sign : Option Bool) (ds rest : Bytes) (hws : AllSpace ws)
    (hds : ∀ d ∈ ds, isDigit d = true) (hne : ds ≠ [])
    (hrest : ∀ r ∈ rest.head?, isDigit r = false) :
    atoi (ws ++ (match sign with | none => [] | some true => [45] | some false => [43]) ++ ds ++ rest)
      = match PV.IniSpec.intValue (sign == some true) ds with
        | some v => .val v
        | none => .overflow :=
  atoi_numeral ws sign ds rest hws hds hne hrest

/-- "Boolean values can be written in the form of 'true/false' or 'TRUE/FALSE', or simply '0/1'";
any other text is `atoi (text) > 0`. -/
theorem getter_boolean :
    toBoolean strTrue = .val true ∧ toBoolean strTRUE = .val true ∧
    toBoolean strFalse = .val false ∧ toBoolean strFALSE = .val false ∧
    toBoolean [49] = .val true ∧ toBoolean [48] = .val false ∧
    ∀ v, v ≠ strTrue → v ≠ strTRUE → v ≠ strFalse → v ≠ strFALSE →
      toBoolean v = match atoi v with
        | .val i => .val (decide (i > 0))
        | .overflow => .overflow := by
  obtain ⟨a, b, c, d, e, g⟩ := toBoolean_words
  exact ⟨a, b, c, d, e, g, toBoolean_numeric⟩

/-- "A list of values can be stored between the '{}' symbols separated with spaces": the items, in order. -/
theorem getter_list (lead : Bytes) (items : List (Bytes × Bytes)) (last : Option Bytes) (hlead : AllSpace lead)
    (hi : ∀ p ∈ items, p.1 ≠ [] ∧ ItemBytes p.1 ∧ p.2 ≠ [] ∧ AllSpace p.2)
    (hl : ∀ it ∈ last, it ≠ [] ∧ ItemBytes it) :
    toList (PV.IniSpec.listText lead items last) = items.map (·.1) ++ last.toList :=
  toList_listText lead items last hlead hi hl

/-! ## (d) F3 and the remaining discrepancies, on concrete inputs -/

/-- `[s]␊# a = b␊` -/
def f3Input : Bytes := [91, 115, 93, 10, 35, 32, 97, 32, 61, 32, 98, 10]

/-- F3: the code *without* the comment guard (`commentSkip = false`, the unmodified source) stores the
comment line `# a = b` of section `s` as key `"# a"` with value `"b"`. -/
theorem f3_unfixed_code_stores_the_comment :
    parseWith false f3Input = [⟨[115], [([35, 32, 97], [98])]⟩] := by decide

/-- with the guard the line contributes nothing (the section, now empty, is dropped) -/
theorem f3_fixed_code_skips_the_comment : parseWith true f3Input = [] := by decide

/-- still false of the repaired code: a comment that starts later on a line and contains '=' —
`[s]␊k # c = d␊` stores key `"k # c"` (documentation: everything after '#' is a comment, so the line has
no '=' at all).  Reported, not repaired. -/
theorem residual_comment_with_equals :
    parseWith true [91, 115, 93, 10, 107, 32, 35, 32, 99, 32, 61, 32, 100, 10]
      = [⟨[115], [([107, 32, 35, 32, 99], [100])]⟩] := by decide

/-- `[s]␊k = "''"␊` is stored with an empty value instead of `''` (reported) -/
theorem quoted_empty_quotes_are_emptied :
    parseWith true [91, 115, 93, 10, 107, 32, 61, 32, 34, 39, 39, 34, 10] = [⟨[115], [([107], [])]⟩] := by decide

/-- the UTF-32 LE byte-order mark is not skipped: its test is shadowed by the UTF-16 LE test, the first
line is then seen as empty and the header `[s]` is lost (reported) -/
theorem utf32le_bom_dead :
    parseWith true ([0xFF, 0xFE, 0x00, 0x00] ++ [91, 115, 93, 10, 107, 61, 118, 10]) = [] ∧
    parseWith true ([0x00, 0x00, 0xFE, 0xFF] ++ [91, 115, 93, 10, 107, 61, 118, 10]) = [⟨[115], [([107], [118])]⟩] := by
  decide

/-- `[s]␊k = 'it␊`: an unquoted value that starts with a quote loses it — the quoted format stores `it` and
`sscanf` has its two conversions before it misses the closing quote (the AST has no such line: `WF` hypothesis) -/
theorem unquoted_leading_quote_is_stripped :
    parseWith true [91, 115, 93, 10, 107, 32, 61, 32, 39, 105, 116, 10] = [⟨[115], [([107], [105, 116])]⟩] := by decide

/-- `[s]␊a=1␊[k=v]␊b=2␊`: a key that starts with '[' on a line that ends in ']' is taken for the header of a
section named `k=v` (documentation: a `key = value` line of section `s`; `WF` hypothesis) -/
theorem bracket_key_is_a_header :
    parseWith true [91, 115, 93, 10, 97, 61, 49, 10, 91, 107, 61, 118, 93, 10, 98, 61, 50, 10]
      = [⟨[115], [([97], [49])]⟩, ⟨[107, 61, 118], [([98], [50])]⟩] := by decide

/-- `[a]b]␊k=v␊`: a section name is cut at its first ']' (`WF` hypothesis) -/
theorem section_name_is_cut_at_bracket :
    parseWith true [91, 97, 93, 98, 93, 10, 107, 61, 118, 10] = [⟨[97], [([107], [118])]⟩] := by decide

set_option maxRecDepth 100000 in
/-- a physical line of 1026 bytes, `k=v…vw␊` with 1022 `v`: `fgets` splits it after 1024 bytes, the value loses its
last byte and the rest is read as a line of its own (pinifile.h states no limit; the property is claimed up to
1024 bytes per line: `WF` hypothesis) -/
theorem over_long_line_is_split :
    parseWith true ([91, 115, 93, 10, 107, 61] ++ List.replicate 1022 118 ++ [119, 10])
      = [⟨[115], [([107], List.replicate 1022 118)]⟩] := by decide

/-- `[a]␊k=1␊[b]␊x=1␊[a]␊j=2␊`: a repeated header is not merged with the earlier section of that name: `a` is listed
twice, `p_ini_file_keys`/the getters see the keys of one of the two only (here the first: `j` is not found).
pinifile.h does not say what a repeated name means; `meaning` describes this behaviour (`IniSpec.seenSec`). -/
theorem repeated_header_not_merged :
    let f := parseWith true [91, 97, 93, 10, 107, 61, 49, 10, 91, 98, 93, 10, 120, 61, 49, 10, 91, 97, 93, 10, 106, 61, 50, 10]
    f = [⟨[98], [([120], [49])]⟩, ⟨[97], [([107], [49])]⟩, ⟨[97], [([106], [50])]⟩] ∧
    sections f = [[97], [97], [98]] ∧ keys f [97] = [[107]] ∧ findParameter f [97] [106] = none := by decide

/-- `EF BB BF FE FF [s]␊k=v␊`: only one byte-order mark is skipped per line; behind a second one the header is not
recognised and its keys are lost (`linesOk`: the first line has the file's mark or its own, not both) — while one mark
at the start of *each* line is skipped (`[s]␊ FE FF k=v␊`) -/
theorem only_one_mark_per_line_is_skipped :
    parseWith true ([0xEF, 0xBB, 0xBF, 0xFE, 0xFF] ++ [91, 115, 93, 10, 107, 61, 118, 10]) = [] ∧
    parseWith true ([91, 115, 93, 10] ++ [0xFE, 0xFF] ++ [107, 61, 118, 10]) = [⟨[115], [([107], [118])]⟩] := by decide

/-! ## (e) the object: life cycle and NULL arguments -/

/-- `p_ini_file_new (NULL)` is NULL; a new object is not parsed. -/
theorem new_object (path : Bytes) :
    fileNew none = none ∧ fileIsParsed (fileNew (some path)) = false ∧ fileIsParsed none = false := ⟨rfl, rfl, rfl⟩

/-- An object that does not exist or is not parsed, and a NULL section or key name, yield nothing and the
defaults — whatever the default is (`FALSE`, 0, `INT_MIN`, NaN, NULL, …): no sections, no keys, no key exists,
every typed getter returns its default argument untouched. -/
theorem unparsed_or_null_yields_defaults (h : Option Handle) (sec key : Option Bytes)
    (hc : fileIsParsed h = false ∨ sec = none ∨ key = none) :
    (fileIsParsed h = false → apiSections h = [] ∧ apiKeys h sec = []) ∧
    apiIsKeyExists h sec key = false ∧
    (∀ d, apiString h sec key d = d.map cstr) ∧ (∀ d, apiInt h sec key d = .val d) ∧
    (∀ d, apiBoolean h sec key d = .val d) ∧ apiList h sec key = [] ∧ (∀ d, apiDouble h sec key d = d) := by
  have hf : apiFind h sec key = none := by
    rcases hc with hp | hn
    · exact apiFind_unparsed h hp sec key
    · exact apiFind_null h sec key hn
  have he : apiIsKeyExists h sec key = false := by
    unfold apiIsKeyExists
    unfold apiFind at hf
    cases sec <;> cases key <;> simp_all [isKeyExists_iff]
  refine ⟨?_, he, ?_, ?_, ?_, ?_, ?_⟩
  · intro hp
    have hv := visible_unparsed h hp
    constructor
    · unfold apiSections; rw [hv]; rfl
    · unfold apiKeys; rw [hv]; cases sec <;> rfl
  all_goals simp [apiString, apiInt, apiBoolean, apiList, apiDouble, hf]

/-- `p_ini_file_parse` on NULL fails with `P_ERROR_IO_INVALID_ARGUMENT`; a file that cannot be opened leaves
the object unparsed (so that a later call tries again), reports the platform's error, and the object keeps
answering with the defaults. -/
theorem failed_parse_leaves_unparsed (fs : Bytes → Except Bool Bytes) (h : Handle) (ne : Bool)
    (hp : h.parsed = false) (hfs : fs h.path = .error ne) :
    fileParse fs none = (none, false, some .invalidArgument) ∧
    fileParse fs (some h) = (some h, false, some (.openFailed ne)) ∧
    fileIsParsed (fileParse fs (some h)).1 = false := by
  refine ⟨rfl, ?_, ?_⟩ <;> simp [fileParse, hp, hfs, fileIsParsed]

/-- A successful parse shows exactly `parse content` (so `consistent`, `parse_render_partial`, `lookup_render`
and the getter theorems speak about what the API returns), and parsing again — whatever the file system
holds by then — changes nothing and succeeds without reading. -/
theorem parse_once (fs fs' : Bytes → Except Bool Bytes) (path content : Bytes) (hfs : fs (cstr path) = .ok content) :
    let r := fileParse fs (fileNew (some path))
    r.2 = (true, none) ∧ fileIsParsed r.1 = true ∧ visible r.1 = parse content ∧
    fileParse fs' r.1 = (r.1, true, none) := by
  simp [fileParse, fileNew, hfs, fileIsParsed, visible]

/-- A failing `fclose` at the end of `p_ini_file_parse` is only logged: whatever `fclose` returns, the call has the
result, the error and the object of `fileParse` (so `parse_once`, `consistent`, `parse_render_partial` … hold for it
as well), `fclose` is called exactly when this call opened the file — once, never after a failed `fopen`, never on
a NULL or already parsed object —, and the warning is printed exactly when that call failed. -/
theorem close_failure_is_harmless (fs : Bytes → Except Bool Bytes) (closeOk : Bool) (h : Option Handle) :
    (fileParseClose fs closeOk h).1 = fileParse fs h ∧
    (fileParseClose fs closeOk h).2.fcloseCalls ≤ 1 ∧
    ((fileParseClose fs closeOk h).2.fcloseCalls = 1 ↔
      (fileIsParsed h = false ∧ fileIsParsed (fileParse fs h).1 = true)) ∧
    ((fileParseClose fs closeOk h).2.warnings = 1 ↔
      (closeOk = false ∧ (fileParseClose fs closeOk h).2.fcloseCalls = 1)) := by
  cases h with
  | none => simp [fileParseClose, fileParse, fileIsParsed]
  | some hd =>
    cases hp : hd.parsed with
    | true => simp [fileParseClose, fileParse, fileIsParsed, hp]
    | false =>
      cases hf : fs hd.path with
      | error ne => simp [fileParseClose, fileParse, fileIsParsed, hp, hf]
      | ok content => cases closeOk <;> simp [fileParseClose, fileParse, fileIsParsed, hp, hf]

/-! ## (f) the `pstring.c` entry points the parser and the getters rely on -/

/-- `p_strchomp` "removes trailing and leading whitespaces": for every string the result is the string
without its leading and trailing white space (C locale) — despite the asymmetric loop bounds of the code.
NULL gives NULL; bytes after a NUL are not seen. -/
theorem strchomp_is_trim (s : Bytes) :
    chomp s = PV.IniSpec.trim s ∧ strchomp (some s) = some (PV.IniSpec.trim (cstr s)) ∧ strchomp none = none :=
  ⟨chomp_eq_trim s, by simp [strchomp, chomp_eq_trim], rfl⟩

/-- `p_strdup` copies the bytes up to the first NUL; NULL gives NULL. -/
theorem strdup_copies (s : Bytes) :
    strdup (some s) = some (cstr s) ∧ strdup none = none ∧ (∀ b ∈ cstr s, b ≠ 0) ∧ (cstr s) <+: s := by
  refine ⟨rfl, rfl, ?_, List.takeWhile_prefix _⟩
  intro b hb
  have := mem_takeWhile_true _ _ b hb
  simpa using this

/-- The documented `p_strtok` loop with one delimiter set returns exactly the maximal non-empty runs of
non-delimiter bytes, in order, and `length + 1` calls always suffice (it terminates); each single call returns
a non-empty delimiter-free token that starts where the leading delimiters end, and leaves strictly less text. -/
theorem strtok_loop (delim s : Bytes) :
    strtokLoop delim (s.length + 1) s = PV.IniSpec.tokens delim s ∧
    ∀ tok rest, strtokR delim s = some (tok, rest) →
      tok ≠ [] ∧ (∀ b ∈ tok, delim.contains b = false) ∧ tok <+: s.dropWhile delim.contains ∧ rest.length < s.length :=
  ⟨strtokLoop_eq_tokens delim _ s (by omega), fun tok rest h => strtokR_token delim s tok rest h⟩

/-- `p_strtod (NULL)` is 0.0 and leading / trailing white space does not matter (the argument is chomped first). -/
theorem strtod_trims (s : Bytes) :
    strtodApi none = 0.0 ∧ strtod s = strtod (PV.IniSpec.trim s) := by
  refine ⟨rfl, ?_⟩
  have h1 : chomp s = PV.IniSpec.trim s := chomp_eq_trim s
  have h2 : chomp (PV.IniSpec.trim s) = PV.IniSpec.trim s := by
    rw [chomp_eq_trim]; exact trim_idem s
  unfold strtod
  rw [h1, h2]

/-! ## non-vacuity -/

/-- ␣[ s ]␍␊ ; c = d␊ k = "v;1" # t␊ k='w'␊ e = ; n␊ f =␍␊ q=" a=b "␊ [e]␊ [t]␊ n = 42 (no final newline), with a UTF-8 BOM -/
def sampleDoc : Doc :=
  { preamble := [⟨.entry ⟨[], [120], [], [], .none, [49], [], none⟩, .lf, .none⟩],
    secs := [
      ⟨⟨[32], [32], [115], [32], [], .crlf, .none⟩,
        [⟨.comment [] ⟨59, [32, 99, 32, 61, 32, 100]⟩, .lf, .none⟩,
         ⟨.entry ⟨[], [107], [32], [32], .double, [118, 59, 49], [32], some ⟨35, [32, 116]⟩⟩, .lf, .none⟩,
         ⟨.entry ⟨[], [107], [], [], .single, [119], [], none⟩, .lf, .none⟩,
         ⟨.entry ⟨[], [101], [32], [], .none, [], [32], some ⟨59, [32, 110]⟩⟩, .lf, .none⟩,
         ⟨.entry ⟨[], [102], [32], [], .none, [], [], none⟩, .crlf, .none⟩,
         ⟨.entry ⟨[], [113], [], [], .double, [32, 97, 61, 98, 32], [], none⟩, .lf, .none⟩]⟩,
      ⟨⟨[], [], [101], [], [], .lf, .none⟩, []⟩,
      ⟨⟨[], [], [116], [], [], .lf, .none⟩,
        [⟨.entry ⟨[], [110], [32], [32], .none, [52, 50], [], none⟩, .eof, .none⟩]⟩] }

example : WF ⟨.utf8⟩ sampleDoc = true := by decide
example : meaning sampleDoc = [([115], [([107], [119]), ([113], [97, 61, 98])]), ([116], [([110], [52, 50])])] := by decide
example : parseView (render ⟨.utf8⟩ sampleDoc) = [([116], [([110], [52, 50])]), ([115], [([107], [119]), ([113], [97, 61, 98])])] :=
  parse_render_partial ⟨.utf8⟩ sampleDoc (by decide)
/-- [a]␊k=1␊[b]␊x=1␊[a]␊j=2␊: repeated section header -/
def repeatedDoc : Doc :=
  { preamble := [],
    secs := [
      ⟨⟨[], [], [97], [], [], .lf, .none⟩, [⟨.entry ⟨[], [107], [], [], .none, [49], [], none⟩, .lf, .none⟩]⟩,
      ⟨⟨[], [], [98], [], [], .lf, .none⟩, [⟨.entry ⟨[], [120], [], [], .none, [49], [], none⟩, .lf, .none⟩]⟩,
      ⟨⟨[], [], [97], [], [], .lf, .none⟩, [⟨.entry ⟨[], [106], [], [], .none, [50], [], none⟩, .lf, .none⟩]⟩] }

example : WF ⟨.none⟩ repeatedDoc = true := by decide
example : meaning repeatedDoc = [([97], [([107], [49])]), ([98], [([120], [49])]), ([97], [([107], [49])])] := by decide
example : listed repeatedDoc = [([97], [([107], [49])]), ([97], [([107], [49])]), ([98], [([120], [49])])] := by decide
example : parseView (render ⟨.none⟩ repeatedDoc) = [([97], [([107], [49])]), ([97], [([107], [49])]), ([98], [([120], [49])])] :=
  parse_render_partial ⟨.none⟩ repeatedDoc (by decide)
example : (parseView (render ⟨.utf16le⟩ repeatedDoc)).Perm (meaning repeatedDoc) := parse_render_perm _ _ (by decide)
example : parameterString (parse (render ⟨.none⟩ repeatedDoc)) [97] [107] (some [100]) = some [49] :=
  (lookup_render ⟨.none⟩ repeatedDoc (by decide) [97] [([107], [49])] (by decide) [107] [49] (by decide) (some [100])).2.2
example : parameterString (parse (render ⟨.utf8⟩ sampleDoc)) [115] [113] none = some [97, 61, 98] :=
  (lookup_render ⟨.utf8⟩ sampleDoc (by decide) [115] [([107], [119]), ([113], [97, 61, 98])] (by decide) [113] [97, 61, 98] (by decide) none).2.2
example : Strict { sampleDoc with secs := sampleDoc.secs.drop 1 } = true := by decide
example : parseView (render ⟨.none⟩ { sampleDoc with secs := sampleDoc.secs.drop 1 }) = [([116], [([110], [52, 50])])] :=
  (parse_render_strict ⟨.none⟩ { sampleDoc with secs := sampleDoc.secs.drop 1 } (by decide) (by decide)).2
/-- [s]␊ FE FF k = v␊ EF BB BF ; c␊ FF FE ␣␊ 00 00 FE FF [t]␊ EF BB BF j=1 (no final newline): a mark before an entry, a
comment line, a blank line, a header and the last line -/
def markedDoc : Doc :=
  { preamble := [],
    secs := [
      ⟨⟨[], [], [115], [], [], .lf, .none⟩,
        [⟨.entry ⟨[], [107], [32], [32], .none, [118], [], none⟩, .lf, .utf16be⟩,
         ⟨.comment [] ⟨59, [32, 99]⟩, .lf, .utf8⟩,
         ⟨.blank [32], .lf, .utf16le⟩]⟩,
      ⟨⟨[], [], [116], [], [], .lf, .utf32be⟩,
        [⟨.entry ⟨[], [106], [], [], .none, [49], [], none⟩, .eof, .utf8⟩]⟩] }

example : WF ⟨.utf8⟩ markedDoc = true := by decide
example : Unmarked markedDoc = false := by decide
example : render ⟨.none⟩ markedDoc = [91, 115, 93, 10, 0xFE, 0xFF, 107, 32, 61, 32, 118, 10, 0xEF, 0xBB, 0xBF, 59, 32, 99, 10,
    0xFF, 0xFE, 32, 10, 0, 0, 0xFE, 0xFF, 91, 116, 93, 10, 0xEF, 0xBB, 0xBF, 106, 61, 49] := by decide
example : meaning markedDoc = [([115], [([107], [118])]), ([116], [([106], [49])])] := by decide
example : parseView (render ⟨.utf8⟩ markedDoc) = [([116], [([106], [49])]), ([115], [([107], [118])])] :=
  parse_render_partial ⟨.utf8⟩ markedDoc (by decide)
example : (parseView (render ⟨.none⟩ markedDoc)).Perm (meaning markedDoc) := parse_render_perm _ _ (by decide)
example : parameterString (parse (render ⟨.none⟩ markedDoc)) [116] [106] none = some [49] :=
  (lookup_render ⟨.none⟩ markedDoc (by decide) [116] [([106], [49])] (by decide) [106] [49] (by decide) none).2.2
/-- the first line carries the file's mark or its own, not both: the second one would not be skipped -/
example : WF ⟨.utf8⟩ { markedDoc with secs := markedDoc.secs.drop 1 } = false := by decide
example : WF ⟨.none⟩ { markedDoc with secs := markedDoc.secs.drop 1 } = true := by decide
example : Unmarked sampleDoc = true := by decide
example : parseView (render ⟨.utf8⟩ sampleDoc) = listed sampleDoc :=
  (parse_render_unmarked ⟨.utf8⟩ sampleDoc (by decide) (by decide)).2
example : (parse f3Input = []) := by decide
example : atoi [32, 45, 49, 50, 120] = .val (-12) := by decide
example : atoi [50, 49, 52, 55, 52, 56, 51, 54, 52, 56] = .overflow := by decide
example : toList [123, 49, 9, 50, 32, 32, 53, 125] = [[49], [50], [53]] := by decide
example : chomp [32, 9, 97, 32, 98, 11, 10] = [97, 32, 98] := by decide
example : strtokLoop [44, 32] 8 [44, 97, 44, 32, 98, 99, 44] = [[97], [98, 99]] := by decide
example : (fileParse (fun _ => .ok f3Input) (fileParse (fun _ => .ok [91, 115, 93, 10, 107, 61, 118]) (fileNew (some [102]))).1).1.map (·.file)
    = some [⟨[115], [([107], [118])]⟩] := by decide
example : apiBoolean (fileNew (some [102])) (some [115]) (some [107]) false = .val false := by decide
example : ((fileParseClose (fun _ => .ok [91, 115, 93, 10, 107, 61, 118]) false (fileNew (some [102]))).1.1.map (·.file),
           (fileParseClose (fun _ => .ok [91, 115, 93, 10, 107, 61, 118]) false (fileNew (some [102]))).1.2.1,
           (fileParseClose (fun _ => .ok [91, 115, 93, 10, 107, 61, 118]) false (fileNew (some [102]))).2)
    = (some [⟨[115], [([107], [118])]⟩], true, ⟨1, 1⟩) := by decide

end PV.Ini

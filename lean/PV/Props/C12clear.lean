import PV.Lemmas.Tree.MorrisClear
import PV.Generated.TreeLoops
/-!
# C12 (heap level) — `p_tree_clear` destroys every pair in ascending order and frees every node once

`p_tree_clear` (`/repo/src/ptree.c`) does not recurse: it rotates the tree into a right-leaning
vine while freeing it.  For every tree laid out in a heap at pairwise distinct addresses (`Repr`):
the loop of `PV/Model/Tree/MorrisClear.lean` terminates within `2 * size + 1` iterations, the destroy
notifiers get exactly `t.toList` (in-order = ascending for a search tree), `free_node_func` is called
on the node addresses in in-order — each address of the tree exactly once and nothing else —,
`nnodes` drops by `size`, afterwards precisely the cells of the tree are empty and every other cell
of the heap is untouched, and the run never reads an empty cell: in particular no node is read (or
freed a second time) after it was freed, since `Heap.free` empties the cell.
-/
namespace PV.Tree.Morris
open PV.Tree

variable {κ ν : Type}

/-- **`p_tree_clear`: termination, destroy log, free log, final heap** for any fuel `≥ 2*size+1`.
    `pt` is the address layout witnessing `Repr h root t`. -/
theorem clear_frees_each_once {h : Heap κ ν} {root : Option Nat} {t : BT κ ν}
    (hr : Repr h root t) (nn : Int) (fuel : Nat) (hf : 2 * t.size + 1 ≤ fuel) :
    ∃ (pt : PT κ ν) (h' : Heap κ ν),
      pt.erase = t ∧ ReprP h root pt none ∧ pt.addrs.Nodup ∧
      clearRun h root nn fuel = .done ⟨h', none, t.toList, pt.addrs, nn - t.size⟩ ∧
      (∀ a, pt.addrs.count a = if a ∈ pt.addrs then 1 else 0) ∧
      (∀ a, h'.get a = if a ∈ pt.addrs then none else h.get a) := by
  obtain ⟨pt, rfl, hrp, hnd⟩ := hr
  refine ⟨pt, ?_⟩
  cases pt with
  | nil =>
    simp only [ReprP] at hrp
    subst hrp
    exact ⟨h, rfl, rfl, hnd, by simp [clearRun, PT.erase, BT.toList, PT.addrs, BT.size],
      fun a => by simp [PT.addrs], fun a => by simp [PT.addrs]⟩
  | node a l k v r =>
    have hroot : root = some a := hrp.1
    subst hroot
    have hsz := PT.erase_size (PT.node a l k v r)
    have hit := PT.iters_le (PT.node a l k v r)
    obtain ⟨f, hfuel⟩ : ∃ f, fuel = (PT.node a l k v r).iters + (f + 1) :=
      ⟨fuel - (PT.node a l k v r).iters - 1, by omega⟩
    obtain ⟨h', hrun, hheap⟩ := clear_trav fuel _ (PT.node a l k v r) h (some a) [] [] nn rfl hrp hnd
      (by omega)
    refine ⟨h', rfl, hrp, hnd, ?_, fun a => hnd.count, hheap⟩
    simp only [clearRun]
    conv => lhs; arg 2; rw [hfuel]
    rw [hrun, clearLoop_succ]
    simp [clearBody, hsz]

/-- the `∃ fuel` form -/
theorem clear_terminates {h : Heap κ ν} {root : Option Nat} {t : BT κ ν}
    (hr : Repr h root t) (nn : Int) :
    ∃ fuel s, clearRun h root nn fuel = .done s ∧ s.cur = none ∧ s.destroyed = t.toList ∧
      s.nnodes = nn - t.size ∧ s.freed.Nodup ∧ s.freed.length = t.size := by
  obtain ⟨pt, h', hpt, _, hnd, hrun, _, _⟩ :=
    clear_frees_each_once hr nn (2 * t.size + 1) (Nat.le_refl _)
  refine ⟨_, _, hrun, rfl, rfl, rfl, hnd, ?_⟩
  have hlen : ∀ p : PT κ ν, p.addrs.length = p.size := by
    intro p
    induction p with
    | nil => rfl
    | node a l k v r ihl ihr => simp [PT.addrs, PT.size]; omega
  rw [← hpt, PT.erase_size]
  exact hlen pt

/-- **no use after free, no NULL dereference**, whatever the fuel -/
theorem clear_no_fault {h : Heap κ ν} {root : Option Nat} {t : BT κ ν} (hr : Repr h root t)
    (nn : Int) (fuel : Nat) : clearRun h root nn fuel ≠ .fault := by
  intro hfault
  obtain ⟨pt, h', _, _, _, hrun, _⟩ :=
    clear_frees_each_once hr nn (max fuel (2 * t.size + 1)) (Nat.le_max_right _ _)
  cases root with
  | none => simp [clearRun] at hfault
  | some a =>
    simp only [clearRun] at hfault hrun
    have := clearLoop_mono hfault (by simp) (Nat.le_max_left fuel (2 * t.size + 1))
      (Nat.le_max_left fuel (2 * t.size + 1))
    rw [this] at hrun
    cases hrun

/-! ### the 5-node heap of `C12morris`, plus a bystander node in cell 5 -/

def h6 : Heap Nat Nat := ⟨[
  some ⟨some 1, some 2, 3, 13⟩,
  some ⟨some 3, some 4, 1, 11⟩,
  some ⟨none, none, 4, 14⟩,
  some ⟨none, none, 0, 10⟩,
  some ⟨none, none, 2, 12⟩,
  some ⟨none, none, 99, 99⟩]⟩

example : clearRun h6 (some 0) 5 11 =
    .done ⟨⟨[none, none, none, none, none, some ⟨none, none, 99, 99⟩]⟩, none,
      [(0, 10), (1, 11), (2, 12), (3, 13), (4, 14)], [3, 1, 4, 0, 2], 0⟩ := by decide

/-- a shared subtree (not a tree: cell 1 is both children of the root) is a double free → fault -/
example : clearRun (⟨[some ⟨some 1, some 1, 1, 1⟩, some ⟨none, none, 0, 0⟩]⟩ : Heap Nat Nat)
    (some 0) 2 9 = .fault := by decide

end PV.Tree.Morris

import PV.Lemmas.RWLock
/-!
# C02 — Read-write lock

"At every instant a PRWLock is held either by exactly one writer or by any number of readers,
never both; reader/writer trylock return TRUE only when that mode is grantable and never block.
Several readers can hold the lock at the same time, and whenever every thread that acquires the
lock later releases it, every lock call returns: a finite set of lock/unlock rounds always runs to
completion (no lost wake-up, no deadlock)."

General model (`prwlock-general.c`): `PV.RWLock.stepThread cfg` where `cfg` and the masks of the
packing macros are generated from the current source (`PV/Generated/RWLock.lean`).  All theorems
hold for ANY number of threads (< 2^15, the width of the counter fields), any interleaving, any
choice of the waiter a `signal` wakes, and with spurious wake-ups (`Reach`).

Assumptions (recorded in the evidence): pthread mutex / condition variable behave as POSIX says
(Mesa semantics, spurious wake-ups allowed) and never fail on valid objects; fewer than 2^15
threads; programs are disciplined (`Disc`: rounds `acquire ; matching release`, a failed acquire
skips its release).

Section g drops "never fail" for the SAFETY half: `ReachF` adds `failStep` (any `p_mutex_lock`,
`p_mutex_unlock`, `p_cond_variable_wait`, signal or broadcast call may return FALSE, any number of
times; a failed call has no effect).  Exclusion and the counter refinement still hold in every
reachable state (`rw_safety_failing`), an acquire call that fails at its `p_mutex_lock` or at a
`p_cond_variable_wait` returns FALSE having acquired nothing and leaves a consistent state
(`failed_lock_acquires_nothing`, `failed_wait_acquires_nothing`, `false_return_holds_nothing`).
The full statement "FALSE ⇒ the counters do not count the caller" is FALSE of the code on one path:
a granted acquire whose final `p_mutex_unlock` fails returns FALSE with `active_threads` bumped
(`failed_unlock_after_grant_keeps_count`, witness `false_return_may_keep_count`); the liveness half
does not survive failures either (a failed unlock wedges the internal mutex, a failed signal loses
the wake-up: `liveness_needs_working_primitives`).
-/
namespace PV.Props.C02
open PV.RWLock

/-- (tie) the wait / wake-up structure extracted from the current `prwlock-general.c` is the one
    the proofs below are about, and the translator recognised every shape -/
theorem cfg_is_reference : cfg = Cfg.reference ∧ PV.Generated.RWLock.extractionComplete = true := by decide

/-! ## a. the packing macros -/

/-- for counts < 2^15 the SET/COUNT macros are inverse to each other and do not disturb the
    other field — on an arbitrary 32-bit word (masks and shift: generated from the source) -/
theorem pack_unpack (x : Word) (n : Nat) (hn : n < 2^15) :
    READER_COUNT (SET_READERS x (BitVec.ofNat 32 n)) = BitVec.ofNat 32 n ∧
    WRITER_COUNT (SET_READERS x (BitVec.ofNat 32 n)) = WRITER_COUNT x ∧
    WRITER_COUNT (SET_WRITERS x (BitVec.ofNat 32 n)) = BitVec.ofNat 32 n ∧
    READER_COUNT (SET_WRITERS x (BitVec.ofNat 32 n)) = READER_COUNT x :=
  ⟨READER_COUNT_SET_READERS x n hn, WRITER_COUNT_SET_READERS x n hn, WRITER_COUNT_SET_WRITERS x n hn,
   READER_COUNT_SET_WRITERS x _⟩

/-- the word `pack r w = r + w·2^15` is what the counters look like: reading the fields gives the
    counts back, and it is zero iff both are -/
theorem pack_fields (r w : Nat) (hr : r < 2^15) (hw : w < 2^15) :
    READER_COUNT (pack r w) = BitVec.ofNat 32 r ∧ WRITER_COUNT (pack r w) = BitVec.ofNat 32 w ∧
    (pack r w = 0 ↔ r = 0 ∧ w = 0) :=
  ⟨READER_COUNT_pack r w hr, WRITER_COUNT_pack r w hr hw, pack_eq_zero r w hr hw⟩

/-- soundness of the step granularity: the two counter words change only in a step that begins by
    acquiring the internal mutex (it was free) and after which the stepping thread owns it;
    spurious wake-ups do not touch them -/
theorem counters_only_under_mutex {s s' : State} (l : Label) (h : Step cfg s l s')
    (hne : s'.active ≠ s.active ∨ s'.waiting ≠ s.waiting) :
    ∃ t pick, l = .run t pick ∧ s.mutex = none ∧ s'.mutex = some t := by
  cases l with
  | run t pick => exact ⟨t, pick, rfl, counters_change h hne⟩
  | spur t =>
    obtain ⟨h1, h2, _⟩ := spurious_counters h
    rcases hne with hne | hne
    · exact absurd h1 hne
    · exact absurd h2 hne

/-! ## b. safety -/

/-- in every reachable state: at most one writer holds; if a writer holds no reader does; and the
    four bit fields are exactly the numbers of holders / of threads inside the wait blocks -/
theorem rw_safety {s : State} (h : Reach cfg s) :
    writers s ≤ 1 ∧ (1 ≤ writers s → readers s = 0) ∧
    s.active = pack (readers s) (writers s) ∧ s.waiting = pack (waitingReaders s) (waitingWriters s) ∧
    READER_COUNT s.active = BitVec.ofNat 32 (readers s) ∧ WRITER_COUNT s.active = BitVec.ofNat 32 (writers s) ∧
    READER_COUNT s.waiting = BitVec.ofNat 32 (waitingReaders s) ∧ WRITER_COUNT s.waiting = BitVec.ofNat 32 (waitingWriters s) := by
  rw [cfg_is_reference.1] at h
  have inv := reach_inv h
  have b : ∀ p : Thread → Bool, s.threads.countP p < 2^15 := fun p => Nat.lt_of_le_of_lt List.countP_le_length inv.len
  refine ⟨inv.safe.1, inv.safe.2, inv.act, inv.wai, ?_, ?_, ?_, ?_⟩
  · rw [inv.act]; exact READER_COUNT_pack _ _ (b _)
  · rw [inv.act]; exact WRITER_COUNT_pack _ _ (b _) (b _)
  · rw [inv.wai]; exact READER_COUNT_pack _ _ (b _)
  · rw [inv.wai]; exact WRITER_COUNT_pack _ _ (b _) (b _)

/-- the ghost `held` is the API-level notion of holding: a thread that is between the TRUE return of
    an acquire call and its unlock call (it is suspended at the entry of the unlock function), or
    about to return TRUE from an acquire call, is counted as a holder of that mode; every other
    thread that is at the entry of an acquire call holds nothing -/
theorem holders_are_api_holders {s : State} {t : Tid} {th : Thread} (h : Reach cfg s) (hth : s.threads[t]? = some th) :
    (th.pc = .lock .runlock → th.held = .r) ∧ (th.pc = .lock .wunlock → th.held = .w) ∧
    (∀ op, op.isAcq = true → th.pc = .atUnlock op true → th.held = op.heldBy) ∧
    (∀ op, op.isAcq = true → th.pc = .lock op → th.held = .none) := by
  rw [cfg_is_reference.1] at h
  exact tok_holder ((reach_inv h).tok th (List.mem_of_getElem? hth))

/-! ## c. trylock -/

/-- `p_rwlock_reader_trylock` decides in its first step (when it gets the internal mutex): the value
    it will return is TRUE iff no writer holds at that moment -/
theorem try_grantable_reader {s s' : State} {t : Tid} {pick : Option Tid} {th : Thread} (h : Reach cfg s)
    (hth : s.threads[t]? = some th) (hpc : th.pc = .lock .rtry) (hs : stepThread cfg s t pick = some s') :
    ∃ th', s'.threads[t]? = some th' ∧ th'.pc = .atUnlock .rtry (decide (writers s = 0)) := by
  rw [cfg_is_reference.1] at h hs
  exact rtry_step (reach_inv h) hth hpc hs

/-- `p_rwlock_writer_trylock`: TRUE iff nobody holds at its decision step -/
theorem try_grantable_writer {s s' : State} {t : Tid} {pick : Option Tid} {th : Thread} (h : Reach cfg s)
    (hth : s.threads[t]? = some th) (hpc : th.pc = .lock .wtry) (hs : stepThread cfg s t pick = some s') :
    ∃ th', s'.threads[t]? = some th' ∧ th'.pc = .atUnlock .wtry (decide (readers s = 0 ∧ writers s = 0)) := by
  rw [cfg_is_reference.1] at h hs
  exact wtry_step (reach_inv h) hth hpc hs

/-- … and the second (last) own step of the call is always enabled and returns that value: a
    trylock takes exactly two own steps and never reaches a condition-variable wait.  (The same
    holds for the last step of every API function.) -/
theorem call_returns {s : State} {t : Tid} {th : Thread} {op : Op} {ret : Bool} (h : Reach cfg s)
    (hth : s.threads[t]? = some th) (hpc : th.pc = .atUnlock op ret) :
    ∃ s', stepThread cfg s t none = some s' ∧
      ∃ th', s'.threads[t]? = some th' ∧ th'.last = some (op, ret) ∧ (th'.pc = .done ∨ ∃ o, th'.pc = .lock o) := by
  rw [cfg_is_reference.1] at h ⊢
  exact return_step (reach_inv h) hth hpc

/-- **trylock never blocks**: in no reachable state is any thread at, inside, or returning from a
    `p_cond_variable_wait` on behalf of a trylock (or unlock) call — only `p_rwlock_reader_lock` waits
    (on `read_cv`) and `p_rwlock_writer_lock` (on `write_cv`).  (The harness's `!TRYBLOCK` oracle
    observes exactly this on the C side.) -/
theorem try_never_waits {s : State} {t : Tid} {th : Thread} {op : Op} {cv : Cv} (h : Reach cfg s)
    (hth : s.threads[t]? = some th)
    (hpc : th.pc = .atWait op cv ∨ th.pc = .blocked op cv ∨ th.pc = .woken op cv) :
    (op = .rlock ∧ cv = .read) ∨ (op = .wlock ∧ cv = .write) := by
  rw [cfg_is_reference.1] at h
  exact tok_wait ((reach_inv h).tok th (List.mem_of_getElem? hth)) hpc

/-! ## d. readers share -/

/-- from any reachable state with k reader holders and no writer holding, another
    `p_rwlock_reader_lock` is granted in its first step (as soon as it gets the internal mutex):
    k+1 readers hold, and the call never blocks on a condition variable (its remaining step is
    `call_returns`, returning TRUE) -/
theorem readers_share {s : State} {t : Tid} {th : Thread} (h : Reach cfg s)
    (hth : s.threads[t]? = some th) (hpc : th.pc = .lock .rlock) (hm : s.mutex = none) (hw : writers s = 0) :
    ∃ s', stepThread cfg s t none = some s' ∧ readers s' = readers s + 1 ∧ writers s' = 0 ∧
      ∃ th', s'.threads[t]? = some th' ∧ th'.pc = .atUnlock .rlock true := by
  rw [cfg_is_reference.1] at h ⊢
  exact rlock_step_shared (reach_inv h) hth hpc hm hw

/-! ## e. liveness (no fairness assumption) -/

/-- no deadlock / no lost wake-up: in every reachable state in which some program is unfinished,
    some thread can make a non-spurious step -/
theorem no_deadlock {s : State} (h : Reach cfg s) (hnd : allDone s = false) : ∃ t, Enabled cfg s t := by
  rw [cfg_is_reference.1] at h ⊢
  obtain ⟨t, s', hs'⟩ := no_deadlock_inv (reach_inv h) hnd
  exact ⟨t, none, s', hs'⟩

/-- the lexicographic measure (calls still to be made, steps still possible inside the current
    calls) strictly decreases on every non-spurious step (any state, any configuration) -/
theorem measure_decreases {s s' : State} {t : Tid} {pick : Option Tid} (h : stepThread cfg s t pick = some s') :
    Prod.Lex (· < ·) (· < ·) (measure s') (measure s) := by
  rcases step_measure h with h1 | ⟨h1, h2⟩
  · exact Prod.Lex.left _ _ h1
  · show Prod.Lex _ _ (major s', minor s') (major s, minor s)
    rw [h1]; exact Prod.Lex.right _ h2

/-- every infinite execution contains infinitely many spurious wake-ups; i.e. every execution
    with finitely many spurious wake-ups is finite … -/
theorem terminates (f : Nat → State) (l : Nat → Label) (hstep : ∀ i, Step cfg (f i) (l i) (f (i+1))) :
    ∀ n, ∃ m, n ≤ m ∧ (l m).isSpur = true := by
  intro n
  apply Classical.byContradiction
  intro hno
  have hall : ∀ m, n ≤ m → (l m).isSpur = false := by
    intro m hm
    cases hsp : (l m).isSpur
    · rfl
    · exact absurd ⟨m, hm, hsp⟩ hno
  apply no_infinite_descent (nsstep_wf cfg) (fun i => f (n + i))
  intro i
  have hs := hstep (n + i)
  have hl := hall (n + i) (Nat.le_add_right _ _)
  cases hli : l (n + i) with
  | run t pick => rw [hli] at hs; exact ⟨t, pick, hs⟩
  | spur t => rw [hli] at hl; simp [Label.isSpur] at hl

/-- … and a finite execution that cannot be extended by a non-spurious step has finished all
    programs: "a finite set of lock/unlock rounds always runs to completion" -/
theorem runs_to_completion {s : State} (h : Reach cfg s) (hstuck : ∀ t, ¬ Enabled cfg s t) : allDone s = true := by
  cases hd : allDone s
  · obtain ⟨t, ht⟩ := no_deadlock h hd
    exact absurd ht (hstuck t)
  · rfl

/-! ## f. posix implementation (`prwlock-posix.c`): mapping onto the trusted pthread rwlock -/

open PV.RWLock.Posix in
/-- every `p_rwlock_*` function returns TRUE iff its pthread call returned 0 -/
theorem posix_result (op : Op) (code : Int) : result op code = true ↔ code = 0 := by
  simp [result]

open PV.RWLock.Posix in
/-- a call that returns FALSE has not changed the lock; an acquire that returns TRUE has made the
    caller a holder in the requested mode, and this was grantable: no writer held (read), nobody
    held (write) -/
theorem posix_mapping {s s' : PState} {t : Tid} {op : Op} {ret : Bool} (h : ApiStep s t op ret s') :
    (ret = false → s' = s) ∧
    (ret = true → (op = .rlock ∨ op = .rtry) → s.writer = none ∧ s' = { s with readers := t :: s.readers }) ∧
    (ret = true → (op = .wlock ∨ op = .wtry) → s.writer = none ∧ s.readers = [] ∧ s' = { s with writer := some t }) :=
  apiStep_spec h

open PV.RWLock.Posix in
/-- hence, over the trusted machine, writer exclusion holds for the wrapper in every reachable state -/
theorem posix_safety {s : PState} (h : PReach s) : s.writer.isSome = true → s.readers = [] :=
  preach_safe h

/-! ## g. failing primitives (safety half) -/

/-- exclusion and the counter refinement hold in every state reachable WITH failing primitive calls:
    at most one writer holds, then no reader; the bit fields are exactly the numbers of (ghost)
    holders / of threads inside the wait blocks -/
theorem rw_safety_failing {s : State} (h : ReachF cfg s) :
    writers s ≤ 1 ∧ (1 ≤ writers s → readers s = 0) ∧
    s.active = pack (readers s) (writers s) ∧ s.waiting = pack (waitingReaders s) (waitingWriters s) ∧
    READER_COUNT s.active = BitVec.ofNat 32 (readers s) ∧ WRITER_COUNT s.active = BitVec.ofNat 32 (writers s) := by
  rw [cfg_is_reference.1] at h
  have inv := reachF_invS h
  have b : ∀ p : Thread → Bool, s.threads.countP p < 2^15 := fun p => Nat.lt_of_le_of_lt List.countP_le_length inv.len
  refine ⟨inv.safe.1, inv.safe.2, inv.act, inv.wai, ?_, ?_⟩
  · rw [inv.act]; exact READER_COUNT_pack _ _ (b _)
  · rw [inv.act]; exact WRITER_COUNT_pack _ _ (b _) (b _)

/-- who is counted, with failing calls: a thread between the TRUE return of an acquire and its unlock
    call is counted in its mode; a thread about to return `ret` from an acquire call through a working
    `p_mutex_unlock` is counted iff `ret` is TRUE; a thread at the entry of an acquire call, or at /
    inside / returning from a wait, is not counted -/
theorem holders_are_api_holders_failing {s : State} {t : Tid} {th : Thread} (h : ReachF cfg s) (hth : s.threads[t]? = some th) :
    (th.pc = .lock .runlock → th.held = .r) ∧ (th.pc = .lock .wunlock → th.held = .w) ∧
    (∀ op ret, op.isAcq = true → th.pc = .atUnlock op ret → th.held = if ret then op.heldBy else .none) ∧
    (∀ op, op.isAcq = true → th.pc = .lock op → th.held = .none) ∧
    (∀ op cv, th.pc = .atWait op cv ∨ th.pc = .blocked op cv ∨ th.pc = .woken op cv → th.held = .none) := by
  rw [cfg_is_reference.1] at h
  exact toks_holder ((reachF_invS h).tok th (List.mem_of_getElem? hth))

/-- **a lock call that fails does not count as holding (1)**: `p_mutex_lock` fails in a lock / trylock
    call: FALSE is returned and nothing at all has changed — both counter words, the internal mutex,
    every other thread, the numbers of holders; the caller holds nothing and goes on with its program -/
theorem failed_lock_acquires_nothing {s s' : State} {t : Tid} {zero : Bool} {th : Thread} {op : Op} (h : ReachF cfg s)
    (hth : s.threads[t]? = some th) (hpc : th.pc = .lock op) (ha : op.isAcq = true) (hf : failStep s t zero = some s') :
    s'.active = s.active ∧ s'.waiting = s.waiting ∧ s'.mutex = s.mutex ∧
    readers s' = readers s ∧ writers s' = writers s ∧ (∀ u, u ≠ t → s'.threads[u]? = s.threads[u]?) ∧
    ∃ th', s'.threads[t]? = some th' ∧ th'.last = some (op, false) ∧ th'.held = .none ∧
      (th'.pc = .done ∨ ∃ o, th'.pc = .lock o) := by
  rw [cfg_is_reference.1] at h
  exact fail_lock_acquire (reachF_invS h) hth hpc ha hf

/-- **(2)** `p_cond_variable_wait` fails in `p_rwlock_reader_lock` / `p_rwlock_writer_lock`: the caller
    leaves the wait block without being granted — `active_threads` and the numbers of holders are
    unchanged, it holds nothing, the value FALSE is decided (and `waiting_threads` is again the number
    of threads inside the wait blocks: `rw_safety_failing` on `s'`) -/
theorem failed_wait_acquires_nothing {s s' : State} {t : Tid} {zero : Bool} {th : Thread} {op : Op} {cv : Cv} (h : ReachF cfg s)
    (hth : s.threads[t]? = some th) (hpc : th.pc = .atWait op cv) (hf : failStep s t zero = some s') :
    s'.active = s.active ∧ s'.mutex = s.mutex ∧ readers s' = readers s ∧ writers s' = writers s ∧
    ∃ th', s'.threads[t]? = some th' ∧ th'.pc = .atUnlock op false ∧ th'.held = .none := by
  rw [cfg_is_reference.1] at h
  exact fail_wait (reachF_invS h) hth hpc hf

/-- **(3)** … and the return itself: a lock / trylock call that is about to return FALSE through a
    working `p_mutex_unlock` (trylock not grantable, or after a failed wait) returns FALSE, has not
    touched `active_threads`, releases the internal mutex and holds nothing -/
theorem false_return_holds_nothing {s : State} {t : Tid} {th : Thread} {op : Op} (h : ReachF cfg s)
    (hth : s.threads[t]? = some th) (hpc : th.pc = .atUnlock op false) (ha : op.isAcq = true) :
    ∃ s', stepThread cfg s t none = some s' ∧ s'.active = s.active ∧ s'.waiting = s.waiting ∧ s'.mutex = none ∧
      readers s' = readers s ∧ writers s' = writers s ∧
      ∃ th', s'.threads[t]? = some th' ∧ th'.last = some (op, false) ∧ th'.held = .none := by
  rw [cfg_is_reference.1] at h ⊢
  exact return_false_step (reachF_invS h) hth hpc ha

/- The full statement would be: "whenever a lock / trylock call returns FALSE, `active_threads` does not
   count the caller".  It is FALSE of the code on one path — the final `p_mutex_unlock` of a GRANTED
   acquire fails: all four functions `return FALSE` there, after `active_threads` was bumped.  What the
   code does on that path: -/

/-- a failed final `p_mutex_unlock`: the call returns FALSE (TRUE only on the zero-reader-count path
    of `p_rwlock_reader_unlock`), both counter words and the ghost `held` stay as the call left them,
    the internal mutex stays owned -/
theorem failed_unlock_after_grant_keeps_count {s s' : State} {t : Tid} {zero : Bool} {th : Thread} {op : Op} {ret : Bool}
    (hth : s.threads[t]? = some th) (hpc : th.pc = .atUnlock op ret) (hf : failStep s t zero = some s') :
    s'.active = s.active ∧ s'.waiting = s.waiting ∧ s'.mutex = s.mutex ∧
    ∃ th', s'.threads[t]? = some th' ∧ th'.last = some (op, zero && op == .runlock) ∧ th'.held = th.held ∧ th'.pc = .done :=
  fail_unlock hth hpc hf

/-- the negation of the full statement on a concrete run: one thread, `p_rwlock_reader_lock` is granted,
    its final `p_mutex_unlock` fails: the call has returned FALSE, yet `READER_COUNT (active_threads) = 1`
    (and the internal mutex is owned for ever) -/
theorem false_return_may_keep_count :
    ∃ s th, ReachF cfg s ∧ s.threads[0]? = some th ∧ th.last = some (.rlock, false) ∧ th.pc = .done ∧
      READER_COUNT s.active = 1 ∧ s.mutex = some 0 := by
  obtain ⟨s, hr, hq⟩ := reachF_witness (c := cfg) [[.rlock, .runlock]] [.run 0 none, .fail 0 false]
    (fun s => s.threads[0]? == some { pc := .done, prog := [], held := .r, last := some (.rlock, false) } &&
      READER_COUNT s.active == 1 && s.mutex == some 0) (by decide) (by decide) (by decide)
  simp only [Bool.and_eq_true, beq_iff_eq] at hq
  exact ⟨s, _, hr, hq.1.1, rfl, rfl, hq.1.2, hq.2⟩

/-- the liveness half needs primitives that work: with ONE failing call a disciplined run deadlocks
    (reader 0 holds; writer 1 waits; the reader's signal fails: the writer sleeps for ever) -/
theorem liveness_needs_working_primitives :
    ∃ s, ReachF cfg s ∧ allDone s = false ∧ ∀ t, ¬ Enabled cfg s t := by
  obtain ⟨s, hr, hq⟩ := reachF_witness (c := cfg) [[.rlock, .runlock], [.wlock, .wunlock]]
    [.run 0 none, .run 0 none, .run 1 none, .run 1 none, .run 0 none, .fail 0 false, .run 0 none]
    (fun s => !allDone s && s.mutex == none && s.threads == [{ pc := .done, prog := [], last := some (.runlock, false) },
      { pc := .blocked .wlock .write, prog := [.wunlock] }]) (by decide) (by decide) (by decide)
  simp only [Bool.and_eq_true, Bool.not_eq_true', beq_iff_eq] at hq
  obtain ⟨⟨h1, _⟩, h3⟩ := hq
  refine ⟨s, hr, h1, ?_⟩
  rintro t ⟨pick, s', hs'⟩
  unfold stepThread at hs'
  rw [h3] at hs'
  match t with
  | 0 => simp [localStep] at hs'
  | 1 => simp [localStep] at hs'
  | (n+2) => simp at hs'

/-! ### non-vacuity of section g -/

/-- `failed_lock_acquires_nothing`: a failing `p_mutex_lock` of a writer trylock while a reader holds -/
example : ∃ s s' th, ReachF cfg s ∧ s.threads[1]? = some th ∧ th.pc = .lock .wtry ∧ failStep s 1 false = some s' ∧ readers s' = 1 := by
  obtain ⟨s, hr, hq⟩ := reachF_witness (c := cfg) [[.rlock, .runlock], [.wtry, .wunlock]] [.run 0 none, .run 0 none]
    (fun s => s.threads[1]? == some { pc := .lock .wtry, prog := [.wunlock] } && (failStep s 1 false).any (fun s' => readers s' == 1))
    (by decide) (by decide) (by decide)
  simp only [Bool.and_eq_true, beq_iff_eq] at hq
  cases hf : failStep s 1 false with
  | none => simp [hf] at hq
  | some s' => rw [hf] at hq; exact ⟨s, s', _, hr, hq.1, rfl, hf, by simpa using hq.2⟩

/-- `failed_wait_acquires_nothing` / `false_return_holds_nothing`: a writer behind a reader whose wait
    fails; it then returns FALSE while the reader still holds, and a later writer trylock … -/
example : ∃ s th, ReachF cfg s ∧ s.threads[1]? = some th ∧ th.last = some (.wlock, false) ∧ readers s = 1 ∧ writers s = 0 ∧
    s.waiting = 0 ∧ s.mutex = none := by
  obtain ⟨s, hr, hq⟩ := reachF_witness (c := cfg) [[.rlock, .runlock], [.wlock, .wunlock]]
    [.run 0 none, .run 0 none, .run 1 none, .fail 1 false, .run 1 none]
    (fun s => s.threads[1]? == some { pc := .done, prog := [], last := some (.wlock, false) } && readers s == 1 && writers s == 0 &&
      s.waiting == 0 && s.mutex == none) (by decide) (by decide) (by decide)
  simp only [Bool.and_eq_true, beq_iff_eq] at hq
  exact ⟨s, _, hr, hq.1.1.1.1, rfl, hq.1.1.1.2, hq.1.1.2, hq.1.2, hq.2⟩

/-- `rw_safety_failing` covers states no failure-free run reaches: a thread that has stopped still
    holding (its unlock call failed at `p_mutex_lock`) -/
example : ∃ s th, ReachF cfg s ∧ s.threads[0]? = some th ∧ th.pc = .done ∧ th.held = .w ∧ writers s = 1 := by
  obtain ⟨s, hr, hq⟩ := reachF_witness (c := cfg) [[.wlock, .wunlock]] [.run 0 none, .run 0 none, .fail 0 false]
    (fun s => s.threads[0]? == some { pc := .done, prog := [], held := .w, last := some (.wunlock, false) } && writers s == 1)
    (by decide) (by decide) (by decide)
  simp only [Bool.and_eq_true, beq_iff_eq] at hq
  exact ⟨s, _, hr, hq.1, rfl, rfl, hq.2⟩

/-! ## non-vacuity -/

/-- two readers hold at the same time (a concrete reachable state) -/
example : ∃ s, Reach cfg s ∧ readers s = 2 ∧ writers s = 0 := by
  obtain ⟨s, hr, hq⟩ := reach_witness (c := cfg) [[.rlock, .runlock], [.rlock, .runlock]]
    [.run 0 none, .run 0 none, .run 1 none, .run 1 none] (fun s => readers s == 2 && writers s == 0)
    (by decide) (by decide) (by decide)
  exact ⟨s, hr, by simpa using hq⟩

/-- a concrete run with a waiting writer: reader 0 holds, writer 1 blocks on `write_cv`
    (`waitingWriters = 1`), is woken by the last reader's signal and gets the lock -/
example : ∃ s, Reach cfg s ∧ waitingWriters s = 1 ∧ readers s = 1 ∧ s.threads.any (isBlockedOn .write) = true := by
  obtain ⟨s, hr, hq⟩ := reach_witness (c := cfg) [[.rlock, .runlock], [.wlock, .wunlock]]
    [.run 0 none, .run 0 none, .run 1 none, .run 1 none]
    (fun s => waitingWriters s == 1 && readers s == 1 && s.threads.any (isBlockedOn .write))
    (by decide) (by decide) (by decide)
  exact ⟨s, hr, by simpa [and_assoc] using hq⟩

/-- … and that run completes: all programs finish (with a spurious wake-up on the way) -/
example : ∃ s, Reach cfg s ∧ allDone s = true ∧ s.threads.length = 2 := by
  obtain ⟨s, hr, hq⟩ := reach_witness (c := cfg) [[.rlock, .runlock], [.wlock, .wunlock]]
    [.run 0 none, .run 0 none, .run 1 none, .run 1 none, .spur 1, .run 1 none, .run 1 none,
     .run 0 none, .run 0 none, .run 0 none, .run 1 none, .run 1 none, .run 1 none, .run 1 none]
    (fun s => allDone s && s.threads.length == 2) (by decide) (by decide) (by decide)
  exact ⟨s, hr, by simpa using hq⟩

/-- trylock both ways: a reader trylock fails while a writer holds, succeeds otherwise -/
example : (runLabels cfg (init [[.wlock, .wunlock], [.rtry, .runlock]]) [.run 0 none, .run 0 none, .run 1 none, .run 1 none]).any
    (fun s => s.threads.any (fun th => th.last == some (.rtry, false))) = true := by decide

/-- `try_never_waits` is not vacuous: a thread blocked in a wait exists in a reachable state (a writer
    behind a reader), and it is the blocking `wlock` on `write_cv` -/
example : ∃ s th, Reach cfg s ∧ s.threads[1]? = some th ∧ th.pc = .blocked .wlock .write := by
  obtain ⟨s, hr, hq⟩ := reach_witness (c := cfg) [[.rlock, .runlock], [.wlock, .wunlock]]
    [.run 0 none, .run 0 none, .run 1 none, .run 1 none]
    (fun s => s.threads[1]? == some { pc := .blocked .wlock .write, prog := [.wunlock] })
    (by decide) (by decide) (by decide)
  exact ⟨s, _, hr, by simpa using hq, rfl⟩

end PV.Props.C02

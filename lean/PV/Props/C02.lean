import PV.Model.RWLock
namespace PV.Props.C02
open PV.RWLock
theorem cfg_is_reference : PV.Generated.RWLock.cfg = Cfg.reference ∧ PV.Generated.RWLock.extractionComplete = true := by decide
end PV.Props.C02

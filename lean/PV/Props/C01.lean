import PV.Generated.Atomics
import PV.Lemmas.Locks
/-!
# C01 — mutex and spinlock: mutual exclusion, trylock, visibility

The machines are those of `PV.Model.Locks`, instantiated with the records the translator generated from
the *current* `pspinlock-c11.c`, `pspinlock-sync.c`, `pspinlock-sim.c`, `pmutex-posix.c`.
Any number of threads (`Tid = Nat`), any interleaving, any mix of lock / trylock / unlock.

Usage discipline (hypothesis of all exclusion theorems, built into `SStep … false` / `MStep`): only a
thread that holds the lock calls unlock.  `rogue_unlock_breaks_exclusion` shows it is necessary.

Trusted (DESIGN §4): one builtin call = one indivisible step with the stated memory order; pthread mutexes
obey POSIX (`PV.Locks.Native`); the happens-before model is a simplification of C11 for one lock word.
-/
namespace PV.C01
open PV.Atomics PV.Locks PV.Generated.Atomics

set_option linter.unusedSimpArgs false

/-! ## the generated records satisfy what the exclusion proof needs

These are the places where an edit of the C source breaks the proof: every field is a statement about
`spinC11` / `spinSync` / `mutexPosix` / `spinSim` as extracted. -/

theorem spinC11_good : SpinGood spinC11 where
  lockCas0 := by decide
  lockCasN := by intro w h; simp [interp, spinC11, operandVals, operandVal, builtinSem, formRet, h]
  tryCas0 := by decide
  tryCasN := by intro w h; simp [interp, spinC11, operandVals, operandVal, builtinSem, formRet, h]
  unlock := by intro w; simp [interp, spinC11, operandVals, operandVal, builtinSem, formRet]
  loop := by decide
  lockRet := by decide
  tryStrong := by decide
  fresh := by decide
  sameWord := by decide
  zeroInit := by decide

theorem spinSync_good : SpinGood spinSync where
  lockCas0 := by decide
  lockCasN := by intro w h; simp [interp, spinSync, operandVals, operandVal, builtinSem, formRet, h]
  tryCas0 := by decide
  tryCasN := by intro w h; simp [interp, spinSync, operandVals, operandVal, builtinSem, formRet, h]
  unlock := by intro w; simp [interp, spinSync, operandVals, operandVal, builtinSem, formRet]
  loop := by decide
  lockRet := by decide
  tryStrong := by decide
  fresh := by decide
  sameWord := by decide
  zeroInit := by decide

theorem ebusy_ne_zero : EBUSY ≠ 0 := by decide

theorem mutexPosix_good : MutexGood mutexPosix where
  lockNative := by decide
  tryNative := by decide
  unlockNative := by decide
  lockRet := by intro c; simp [mutexPosix, MutexFn.ret]
  tryRet := by intro c; simp [mutexPosix, MutexFn.ret]
  unlockRet := by intro c; simp [mutexPosix, MutexFn.ret]

/-- `pspinlock-sim.c` delegates lock → `p_mutex_lock`, trylock → `p_mutex_trylock`, unlock →
    `p_mutex_unlock` of one and the same mutex member and returns their result unchanged -/
theorem spinSim_delegates : simSpinMutex spinSim mutexPosix = mutexPosix ∧ spinSim.sameMutex = true := ⟨rfl, rfl⟩

theorem spinSim_good : MutexGood (simSpinMutex spinSim mutexPosix) := by
  rw [spinSim_delegates.1]; exact mutexPosix_good

/-! ## 1. mutual exclusion -/

theorem excl_c11 {s : SState} (r : SReach spinC11 false s) (t u : Tid) (ht : s.holds t) (hu : s.holds u) : t = u :=
  spin_excl spinC11_good r t u ht hu

theorem excl_sync {s : SState} (r : SReach spinSync false s) (t u : Tid) (ht : s.holds t) (hu : s.holds u) : t = u :=
  spin_excl spinSync_good r t u ht hu

theorem excl_posix {s : MState} (r : MReach EBUSY mutexPosix s) (t u : Tid) (ht : s.holds t) (hu : s.holds u) : t = u :=
  mutex_excl ebusy_ne_zero mutexPosix_good r t u ht hu

theorem excl_sim {s : MState} (r : MReach EBUSY (simSpinMutex spinSim mutexPosix) s) (t u : Tid)
    (ht : s.holds t) (hu : s.holds u) : t = u :=
  mutex_excl ebusy_ne_zero spinSim_good r t u ht hu

/-- the state invariant behind exclusion, for the record: a holder implies word = 1, no holder implies
    word = 0 (c11 and sync) -/
theorem word_tracks_holder_c11 {s : SState} (r : SReach spinC11 false s) :
    (∀ t, s.holds t → s.word = 1#32) ∧ ((∀ t, ¬ s.holds t) → s.word = 0#32) :=
  ⟨(sInv_reach spinC11_good r).heldWord, (sInv_reach spinC11_good r).freeWord⟩

theorem word_tracks_holder_sync {s : SState} (r : SReach spinSync false s) :
    (∀ t, s.holds t → s.word = 1#32) ∧ ((∀ t, ¬ s.holds t) → s.word = 0#32) :=
  ⟨(sInv_reach spinSync_good r).heldWord, (sInv_reach spinSync_good r).freeWord⟩

/-- posix / sim: whoever `holds` owns the native mutex -/
theorem holder_owns_native {s : MState} (r : MReach EBUSY mutexPosix s) (t : Tid) (h : s.holds t) : s.owner = some t :=
  mutex_inv ebusy_ne_zero mutexPosix_good r t h

/-- Without the discipline exclusion fails: thread 0 takes the lock, thread 1 (not a holder) calls unlock,
    thread 1 takes the lock — both hold. -/
theorem rogue_unlock_breaks_exclusion :
    ∃ s, SReach spinC11 true s ∧ s.holds 0 ∧ s.holds 1 := by
  have r0 : SReach spinC11 true sInit := .init
  have r1 := SReach.step r0 (SStep.try_ sInit 0 1#32 true rfl (by decide))
  have r2 := SReach.step r1 (SStep.rogueUnlock _ 1 0#32 rfl (by simp [upd, sInit]) (by decide))
  have r3 := SReach.step r2 (SStep.try_ _ 1 1#32 true (by simp [upd, sInit]) (by decide))
  exact ⟨_, r3, by simp [SState.holds, upd], by simp [SState.holds, upd]⟩

/-- The loop condition matters: with the generated condition inverted (`while (cas == TRUE)`) two threads
    hold the lock (thread 0: CAS ok, loops, CAS fails, returns; thread 1: CAS fails, returns). -/
theorem inverted_loop_breaks_exclusion :
    ∃ s, SReach { spinC11 with loopWhile := true } false s ∧ s.holds 0 ∧ s.holds 1 := by
  let p : SpinImpl := { spinC11 with loopWhile := true }
  have r0 : SReach p false sInit := .init
  have r1 := SReach.step r0 (SStep.callLock sInit 0 rfl)
  have r2 := SReach.step r1 (SStep.cas _ 0 1#32 true (by simp [upd]) (by decide))
  have r3 := SReach.step r2 (SStep.cas _ 0 1#32 false (by simp [upd, afterCas, p]) (by decide))
  have r4 := SReach.step r3 (SStep.callLock _ 1 (by simp [upd, sInit]))
  have r5 := SReach.step r4 (SStep.cas _ 1 1#32 false (by simp [upd]) (by decide))
  refine ⟨_, r5, ?_, ?_⟩ <;> simp [SState.holds, upd, afterCas, p, spinC11]

/-! ### several objects

Any number of lock objects used by any number of threads (a thread may hold several): exclusion holds per
object, and what happens on one object never changes another (so a held lock A cannot make a free lock B look
held).  For the simulated spinlock this rests on every object owning a mutex of its own, which the translator
reads off `p_spinlock_new` (`spinSim_own_mutex`). -/

theorem spinSim_own_mutex : spinSim.freshMutex = true ∧ spinSim.freeReleases = true := by decide

theorem excl_c11_objects {f : Nat → SState} (r : PSReach spinC11 f) (i : Nat) (t u : Tid)
    (ht : (f i).holds t) (hu : (f i).holds u) : t = u :=
  excl_c11 (psReach_proj r i) t u ht hu

theorem excl_sync_objects {f : Nat → SState} (r : PSReach spinSync f) (i : Nat) (t u : Tid)
    (ht : (f i).holds t) (hu : (f i).holds u) : t = u :=
  excl_sync (psReach_proj r i) t u ht hu

theorem excl_posix_objects {f : Nat → MState} (r : PMReach EBUSY mutexPosix f) (i : Nat) (t u : Tid)
    (ht : (f i).holds t) (hu : (f i).holds u) : t = u :=
  excl_posix (pmReach_proj r i) t u ht hu

theorem excl_sim_objects {f : Nat → MState} (r : PMReach EBUSY (simSpinMutex spinSim mutexPosix) f) (i : Nat) (t u : Tid)
    (ht : (f i).holds t) (hu : (f i).holds u) : t = u :=
  excl_sim (pmReach_proj r i) t u ht hu

/-- a step is a step of one object; all others keep their state -/
theorem objects_independent_c11 {f g : Nat → SState} (st : PSStep spinC11 f g) : ∃ i, ∀ j, j ≠ i → g j = f j :=
  psStep_frame st

theorem objects_independent_posix {f g : Nat → MState} (st : PMStep EBUSY mutexPosix f g) : ∃ i, ∀ j, j ≠ i → g j = f j :=
  pmStep_frame st

/-- trylock on a free object succeeds, whoever holds whichever other objects -/
theorem trylock_free_object_c11 {f : Nat → SState} (r : PSReach spinC11 f) (i : Nat) (t : Tid) (b : Bool) {s' : SState}
    (free : ∀ u, ¬ (f i).holds u) (st : SStep spinC11 false (f i) (.try_ t b) s') : b = true ∧ s'.holds t :=
  spin_try_free spinC11_good (psReach_proj r i) t b free st

theorem trylock_free_object_sync {f : Nat → SState} (r : PSReach spinSync f) (i : Nat) (t : Tid) (b : Bool) {s' : SState}
    (free : ∀ u, ¬ (f i).holds u) (st : SStep spinSync false (f i) (.try_ t b) s') : b = true ∧ s'.holds t :=
  spin_try_free spinSync_good (psReach_proj r i) t b free st

/-! ## 2. trylock -/

/-- a trylock call is enabled in every state and completes in that one step (never blocks, never spins);
    it leaves the caller holding iff it returned TRUE -/
theorem trylock_never_blocks_c11 (rogue : Bool) (s : SState) (t : Tid) (h : s.pc t = .idle) :
    ∃ b s', SStep spinC11 rogue s (.try_ t b) s' ∧ s'.pc t ≠ .spin ∧ (s'.holds t ↔ b = true) :=
  spin_try_enabled spinC11_good rogue s t h

theorem trylock_never_blocks_sync (rogue : Bool) (s : SState) (t : Tid) (h : s.pc t = .idle) :
    ∃ b s', SStep spinSync rogue s (.try_ t b) s' ∧ s'.pc t ≠ .spin ∧ (s'.holds t ↔ b = true) :=
  spin_try_enabled spinSync_good rogue s t h

/-- posix / sim: whatever the state of the native mutex, `p_mutex_trylock` has an enabled step
    (POSIX: trylock returns EBUSY instead of waiting) -/
theorem trylock_never_blocks_posix (s : MState) (t : Tid) (h : s.pc t = .idle) :
    ∃ c s', MStep EBUSY mutexPosix s (.try_ t c (mutexPosix.trylock.ret c)) s' := by
  cases ho : s.owner with
  | none =>
    refine ⟨0, _, MStep.try_ s t 0 (some t) .trylock h (by decide) ?_⟩
    rw [ho]; exact Native.tryAcquire t
  | some u =>
    refine ⟨EBUSY, _, MStep.try_ s t EBUSY (some u) .trylock h (by decide) ?_⟩
    rw [ho]; exact Native.tryBusy u t

/-- on a free lock (nobody holds) every outcome of trylock is TRUE and the caller then holds -/
theorem trylock_succeeds_when_free_c11 {s s' : SState} (r : SReach spinC11 false s) (t : Tid) (b : Bool)
    (free : ∀ u, ¬ s.holds u) (st : SStep spinC11 false s (.try_ t b) s') : b = true ∧ s'.holds t :=
  spin_try_free spinC11_good r t b free st

theorem trylock_succeeds_when_free_sync {s s' : SState} (r : SReach spinSync false s) (t : Tid) (b : Bool)
    (free : ∀ u, ¬ s.holds u) (st : SStep spinSync false s (.try_ t b) s') : b = true ∧ s'.holds t :=
  spin_try_free spinSync_good r t b free st

/-- … and it returns FALSE exactly when somebody holds the lock -/
theorem trylock_false_iff_held_c11 {s s' : SState} (r : SReach spinC11 false s) (t : Tid) (b : Bool)
    (st : SStep spinC11 false s (.try_ t b) s') : b = false ↔ ∃ u, s.holds u :=
  spin_try_false_iff_held spinC11_good r t b st

theorem trylock_false_iff_held_sync {s s' : SState} (r : SReach spinSync false s) (t : Tid) (b : Bool)
    (st : SStep spinSync false s (.try_ t b) s') : b = false ↔ ∃ u, s.holds u :=
  spin_try_false_iff_held spinSync_good r t b st

/-- posix: on a free native mutex, a trylock whose native call reports nothing but 0 / EBUSY (the only
    results POSIX allows for a valid, non-recursive mutex) returns TRUE and the caller holds -/
theorem trylock_succeeds_when_free_posix {s s' : MState} (t : Tid) (c : Int) (b : Bool) (free : s.owner = none)
    (valid : c = 0 ∨ c = EBUSY) (st : MStep EBUSY mutexPosix s (.try_ t c b) s') : b = true ∧ s'.holds t := by
  generalize hl : MLbl.try_ t c b = l at st
  cases st with
  | try_ t' c' o' k hpc hk hn =>
    injection hl with e1 e2 e3; subst e1; subst e2; subst e3
    rw [mutexPosix_good.tryNative] at hk; injection hk with hk; subst hk
    rw [free] at hn
    rcases native_try_inv hn with ⟨h1, _, _⟩ | ⟨_, _, h3⟩ | ⟨h1, h2⟩
    · subst h1
      exact ⟨by decide, by simp [MState.holds, mutexPosix, MutexFn.ret]⟩
    · exact absurd rfl h3
    · rcases valid with v | v
      · exact absurd v h1
      · -- a failure code equal to EBUSY on a free mutex is not a behaviour of `Native`
        generalize hk2 : NativeFn.trylock = k2 at hn
        cases hn with
        | tryAcquire => exact absurd rfl h1
        | tryFail _ _ _ _ hne => exact absurd v hne
        | lockAcquire => cases hk2
        | lockFail => cases hk2
        | unlockFail => cases hk2
  | lock => cases hl
  | unlock => cases hl

/-! ## 3. the spin loop is left only through a successful CAS -/

/-- in any step that takes thread `t` from "spinning inside p_spinlock_lock" to "lock returned", the step
    is t's compare-and-swap, it succeeded, and it changed the word from 0 to 1.
    (Proved from `spinC11_good.loop`: the generated loop repeats while the result is FALSE; with the
    condition inverted this statement is false, see `inverted_loop_breaks_exclusion`.) -/
theorem lock_returns_only_after_cas_ok_c11 {rogue : Bool} {s s' : SState} {l : Lbl} (t : Tid)
    (st : SStep spinC11 rogue s l s') (h0 : s.pc t = .spin) (h1 : s'.holds t) :
    l = .cas t true ∧ s.word = 0#32 ∧ s'.word = 1#32 :=
  spin_exit_only_by_cas_ok spinC11_good t st h0 h1

theorem lock_returns_only_after_cas_ok_sync {rogue : Bool} {s s' : SState} {l : Lbl} (t : Tid)
    (st : SStep spinSync rogue s l s') (h0 : s.pc t = .spin) (h1 : s'.holds t) :
    l = .cas t true ∧ s.word = 0#32 ∧ s'.word = 1#32 :=
  spin_exit_only_by_cas_ok spinSync_good t st h0 h1

/-- posix: `p_mutex_lock` returns TRUE only for native code 0, i.e. only when the native mutex was acquired -/
theorem lock_true_only_when_acquired_posix {s s' : MState} (t : Tid) (c : Int)
    (st : MStep EBUSY mutexPosix s (.lock t c true) s') : c = 0 ∧ s.owner = none ∧ s'.owner = some t := by
  generalize hl : MLbl.lock t c true = l at st
  cases st with
  | lock t' c' o' k hpc hk hn =>
    injection hl with e1 e2 e3; subst e1; subst e2
    rw [mutexPosix_good.lockNative] at hk; injection hk with hk; subst hk
    have hc : c = 0 := (mutexPosix_good.lockRet c).1 e3.symm
    rcases native_lock_inv hn with ⟨_, h2, h3⟩ | ⟨h1, _⟩
    · exact ⟨hc, h2, h3⟩
    · exact absurd hc h1
  | try_ => cases hl
  | unlock => cases hl

/-! ## 4. visibility -/

/-- every successful acquisition (spin-loop CAS or trylock) reads the value written by the most recent
    unlock store — or the initial zero for the very first one; never the value of another acquisition.
    This is the reads-from edge `rel k → acq (k+1)` of the happens-before model. -/
theorem next_acquire_reads_last_release_c11 {s s' : SState} {lw : Option Lbl} {l : Lbl} (r : SReachG spinC11 s lw)
    (st : SStep spinC11 false s l s') (hl : (∃ t, l = .cas t true) ∨ (∃ t, l = .try_ t true)) :
    lw = none ∨ ∃ u, lw = some (.unlock u) := by
  rcases lastWrite_inv spinC11_good r with h | ⟨hw, _⟩
  · exact h
  · exfalso
    rcases hl with ⟨t, rfl⟩ | ⟨t, rfl⟩
    · have := spin_exit_only_by_cas_ok spinC11_good t st ?_ ?_
      · rw [this.2.1] at hw; exact absurd hw (by decide)
      · generalize hl : Lbl.cas t true = l at st
        cases st <;> first | (injection hl with e1 e2; subst e1; assumption) | cases hl
      · generalize hl : Lbl.cas t true = l at st
        cases st with
        | cas t' w' b h hc => injection hl with e1 e2; subst e1; subst e2; simp [afterCas_true spinC11_good]
        | casSpurious t' h hweak => injection hl with e1 e2; cases e2
        | _ => cases hl
    · obtain ⟨_, h | h⟩ := spin_try_inv st
      · obtain ⟨w', hc, _⟩ := h
        rw [spinC11_good.tryCasN _ (by rw [hw]; decide)] at hc
        injection hc with hc; injection hc with _ e; injection e with e; cases e
      · cases h.2.1

theorem next_acquire_reads_last_release_sync {s s' : SState} {lw : Option Lbl} {l : Lbl} (r : SReachG spinSync s lw)
    (st : SStep spinSync false s l s') (hl : (∃ t, l = .cas t true) ∨ (∃ t, l = .try_ t true)) :
    lw = none ∨ ∃ u, lw = some (.unlock u) := by
  rcases lastWrite_inv spinSync_good r with h | ⟨hw, _⟩
  · exact h
  · exfalso
    rcases hl with ⟨t, rfl⟩ | ⟨t, rfl⟩
    · have := spin_exit_only_by_cas_ok spinSync_good t st ?_ ?_
      · rw [this.2.1] at hw; exact absurd hw (by decide)
      · generalize hl : Lbl.cas t true = l at st
        cases st <;> first | (injection hl with e1 e2; subst e1; assumption) | cases hl
      · generalize hl : Lbl.cas t true = l at st
        cases st with
        | cas t' w' b h hc => injection hl with e1 e2; subst e1; subst e2; simp [afterCas_true spinSync_good]
        | casSpurious t' h hweak => injection hl with e1 e2; cases e2
        | _ => cases hl
    · obtain ⟨_, h | h⟩ := spin_try_inv st
      · obtain ⟨w', hc, _⟩ := h
        rw [spinSync_good.tryCasN _ (by rw [hw]; decide)] at hc
        injection hc with hc; injection hc with _ e; injection e with e; cases e
      · cases h.2.1

/-- If the unlock store is release-or-stronger and the successful CAS acquire-or-stronger, every access of
    critical section k happens-before every access of critical section k+1. -/
theorem cs_ordered (relOk acqOk : Bool) (hr : relOk = true) (ha : acqOk = true) (k i j : Nat) :
    HB relOk acqOk (.body k i) (.body (k + 1) j) :=
  .trans (.po_body_rel k i) (.trans (.sw k hr ha) (.po_acq_body (k + 1) j))

/-- … and by transitivity before every access of every later critical section -/
theorem cs_ordered_later (relOk acqOk : Bool) (hr : relOk = true) (ha : acqOk = true) (k d i j : Nat) :
    HB relOk acqOk (.body k i) (.body (k + 1 + d) j) := by
  induction d generalizing j with
  | zero => exact cs_ordered relOk acqOk hr ha k i j
  | succ d ih => exact .trans (ih 0) (cs_ordered relOk acqOk hr ha (k + 1 + d) 0 j)

/-- the premise is necessary: if the unlock store is *not* a release, nothing orders two different
    critical sections in this model -/
theorem cs_unordered_without_release (acqOk : Bool) {a b : Ev} (h : HB false acqOk a b) : evCs a = evCs b := by
  induction h with
  | po_acq_body => rfl
  | po_body_body => rfl
  | po_body_rel => rfl
  | po_acq_rel => rfl
  | sw k hr _ => cases hr
  | trans _ _ ih1 ih2 => exact ih1.trans ih2

/-- c11: `__atomic_store (…, __ATOMIC_RELEASE)` and CAS with success order `__ATOMIC_ACQUIRE`
    (both read off the generated record, for lock and trylock) -/
theorem cs_ordered_c11 (k i j : Nat) :
    HB (relOK .c11 spinC11.unlock) (acqOK spinC11.lockCas && acqOK spinC11.tryCas) (.body k i) (.body (k + 1) j) :=
  cs_ordered _ _ (by decide) (by decide) k i j

/-- sync: the CAS is a `__sync_*` full barrier.  The unlock is a plain (volatile) store *followed* by
    `__sync_synchronize ()`.  Under x86-TSO (the platform of the trusted base: stores are not reordered with
    earlier loads / stores) that store is a release and the barrier makes it globally visible before the
    function returns.  NOTE: under the portable C11 model the same record is **not** a release
    (`relOK .c11 spinSync.unlock = false`: the barrier is on the wrong side of the store), which is reported
    as a suspected portability defect by the check (see tools/props/c01.py) and deliberately *not* stated as
    a theorem here (a theorem that is true because of a defect would break when the defect is fixed). -/
theorem cs_ordered_sync_tso (k i j : Nat) :
    HB (relOK .tso spinSync.unlock) (acqOK spinSync.lockCas && acqOK spinSync.tryCas) (.body k i) (.body (k + 1) j) :=
  cs_ordered _ _ (by decide) (by decide) k i j

/-- posix / sim: POSIX (XBD 4.12) lists `pthread_mutex_lock / trylock / unlock` among the functions that
    synchronise memory: the unlock is a release, the next successful lock an acquire (trusted).  With that
    contract the ordering is the same instance of `cs_ordered`. -/
theorem cs_ordered_posix (k i j : Nat) : HB true true (.body k i) (.body (k + 1) j) :=
  cs_ordered true true rfl rfl k i j

/-! ## non-vacuity -/

/-- three threads: 0 holds (by lock), 1 spins, 2 is idle after a failed trylock -/
example : ∃ s, SReach spinC11 false s ∧ s.holds 0 ∧ s.pc 1 = .spin ∧ s.pc 2 = .idle ∧ s.word = 1#32 := by
  have r0 : SReach spinC11 false sInit := .init
  have r1 := SReach.step r0 (SStep.callLock sInit 0 rfl)
  have r2 := SReach.step r1 (SStep.callLock _ 1 (by simp [upd, sInit]))
  have r3 := SReach.step r2 (SStep.cas _ 0 1#32 true (by simp [upd]) (by decide))
  have r4 := SReach.step r3 (SStep.cas _ 1 1#32 false (by simp [upd]) (by decide))
  have r5 := SReach.step r4 (SStep.try_ _ 2 1#32 false (by simp [upd, sInit]) (by decide))
  exact ⟨_, r5, by simp [SState.holds, upd, afterCas, spinC11], by simp [upd, afterCas, spinC11],
    by simp [upd], rfl⟩

/-- the sync machine: lock, unlock, lock again by another thread -/
example : ∃ s, SReach spinSync false s ∧ s.holds 1 ∧ ¬ s.holds 0 := by
  have r0 : SReach spinSync false sInit := .init
  have r1 := SReach.step r0 (SStep.try_ sInit 0 1#32 true rfl (by decide))
  have r2 := SReach.step r1 (SStep.unlock _ 0 0#32 (by simp [upd]) (by decide))
  have r3 := SReach.step r2 (SStep.try_ _ 1 1#32 true (by simp [upd, sInit]) (by decide))
  exact ⟨_, r3, by simp [SState.holds, upd], by simp [SState.holds, upd]⟩

/-- the posix machine: thread 0 owns, thread 1's trylock gets EBUSY and FALSE -/
example : ∃ s, MReach EBUSY mutexPosix s ∧ s.holds 0 ∧ ¬ s.holds 1 ∧ s.owner = some 0 := by
  have r0 : MReach EBUSY mutexPosix mInit := .init
  have r1 := MReach.step r0 (MStep.lock mInit 0 0 (some 0) .lock rfl (by decide) (Native.lockAcquire 0))
  have r2 := MReach.step r1 (MStep.try_ _ 1 EBUSY (some 0) .trylock (by simp [upd, mInit]) (by decide) (Native.tryBusy 0 1))
  refine ⟨_, r2, ?_, ?_, rfl⟩ <;> simp [MState.holds, upd, mutexPosix, MutexFn.ret, EBUSY, mInit]

/-- two objects: thread 0 holds object 0 and object 1 at once, thread 1's trylock on object 0 fails while
    object 2 is still free -/
example : ∃ f, PSReach spinC11 f ∧ (f 0).holds 0 ∧ (f 1).holds 0 ∧ ¬ (f 0).holds 1 ∧ (f 2).word = 0#32 := by
  have r0 : PSReach spinC11 (fun _ => sInit) := .init
  have r1 := PSReach.step r0 (PSStep.on _ 0 _ _ (SStep.try_ sInit 0 1#32 true rfl (by decide)))
  have r2 := PSReach.step r1 (PSStep.on _ 1 _ _ (SStep.try_ sInit 0 1#32 true rfl (by decide)))
  have r3 := PSReach.step r2 (PSStep.on _ 0 _ _ (SStep.try_ ⟨1#32, upd sInit.pc 0 .held⟩ 1 1#32 false (by simp [upd, sInit]) (by decide)))
  refine ⟨_, r3, ?_, ?_, ?_, ?_⟩ <;> simp [updObj, SState.holds, upd, sInit]

/-- happens-before relates something and, without release, does not relate different sections -/
example : HB true true (.body 0 3) (.body 2 0) := cs_ordered_later true true rfl rfl 0 1 3 0
example : ¬ HB false true (.body 0 0) (.body 1 0) := fun h => by
  have := cs_unordered_without_release true h; simp [evCs] at this

end PV.C01

import PV.Lemmas.IPC
/-!
# C06 — named semaphore (`psemaphore-posix.c` over the POSIX name space model `PV.IPC.OS`)

All statements are about the model `PV.Model.IPC` instantiated with the facts extracted from the
current source (`PV.Generated.IPC`): every schedule = every `List Action` (any interleaving of the
system calls of any calls of any threads of any processes, SIGKILLs included), every EINTR script.
Sequential statements use `G.call` (one thread runs its call to the end while the others are quiet).

* `Agree k o g`   — name `k` is bound to object `o` and every live handle of `k` refers to `o`.
* `QuietRun k g as` — while the schedule `as` runs from `g`, no CREATE-mode open of `k` and no
  owner free of `k` is at its `sem_unlink`/re-create steps (`Call.quiet`).
System V variants are not modelled.  Key injectivity (truncated SHA-1) is an assumption.
Schedules also contain `Action.fail t e` (the next system call of `t` fails with `e`, scripted): §8 states what the
failure exits of `pp_semaphore_create_handle` / `p_semaphore_acquire` / `p_semaphore_release` do (clean failure).
-/
namespace PV.IPC.C06
open PV.IPC PV.Generated.IPC

/-! ## 1. one counter per name -/

/-- All handles of one name opened since the name was last created — no CREATE-mode open and no
    owner free of that name in between — refer to the same object, in every thread and process and
    for every interleaving: the name stays bound to `o` and every live handle of `k` has `obj = o`. -/
theorem one_counter_per_name (k : SemKey) (o : ObjId) (g : G) (as : List Action)
    (h0 : Agree k o g) (hq : QuietRun k g as) : Agree k o (execAll g as) :=
  agree_execAll k o as g h0 hq

/-- … hence any two such handles operate on one counter: their acquire / release are the same system call. -/
theorem same_counter (k : SemKey) (o : ObjId) (g : G) (h1 h2 : Hid) (p1 p2 : Pid) (x1 x2 : PSem)
    (ha : Agree k o g) (e1 : g.hs h1 = some (p1, .sem x1)) (e2 : g.hs h2 = some (p2, .sem x2))
    (k1 : x1.key = k) (k2 : x2.key = k) :
    acquireNext x1 = acquireNext x2 ∧ releaseNext x1 = releaseNext x2 ∧ g.os.semNames k = some x1.obj := by
  have a1 := ha.2.1 h1 p1 x1 e1 k1
  have a2 := ha.2.1 h2 p2 x2 e2 k2
  simp [acquireNext, releaseNext, a1, a2, ha.1]

/-- frame: a step of any call leaves every name its system call does not address, … -/
theorem other_names_untouched (g : G) (t : Tid) (i : Bool) (c : Call) (hc : g.calls t = some c) (k' : SemKey)
    (hk : c.next.semKey? ≠ some k') : (g.step t i).os.semNames k' = g.os.semNames k' := by
  rw [step_os g t i c hc]; exact sysStep_semNames_frame _ _ _ _ _ hk

/-- … the semaphore calls address only their own key (`p_semaphore_new`: always its key;
    `p_semaphore_free`: its key or none; acquire / release: none), … -/
theorem sem_calls_address_own_key (s : SemNewSt) (f : SemFreeSt) (x : PSem) :
    s.next.semKey? = some s.key ∧ (f.next.semKey? = none ∨ f.next.semKey? = some f.h.key) ∧
    (acquireNext x).semKey? = none ∧ (releaseNext x).semKey? = none :=
  ⟨semNew_next_key s, semFree_next_key f, rfl, rfl⟩

/-- … and the value of an existing object changes only by a `sem_wait` / `sem_post` on that object. -/
theorem other_counters_untouched (g : G) (t : Tid) (i : Bool) (c : Call) (hc : g.calls t = some c) (o : ObjId)
    (ho : o < g.os.nextObj) (h1 : c.next ≠ .semWait o) (h2 : c.next ≠ .semPost o) :
    ((g.step t i).os.sems o).value = (g.os.sems o).value := by
  rw [step_os g t i c hc]
  have := sysStep_value (g.pidOf t) i c.next g.os o ho
  simpa [h1, h2] using this

/-! ## 2. acquire / release -/

/-- `p_semaphore_acquire` returns only at a step whose `sem_wait` returned 0, and that step consumes
    exactly one unit of the handle's object; a step that does not return changes nothing. -/
theorem acquire_consumes (g : G) (t : Tid) (i : Bool) (x : PSem) (hc : g.calls t = some (.acquire x)) :
    ((g.step t i).calls t = none ↔ (sysStep (g.pidOf t) i (.semWait x.obj) g.os).2 = .ok 0) ∧
    ((g.step t i).calls t = none →
        (g.os.sems x.obj).value = ((g.step t i).os.sems x.obj).value + 1 ∧ (g.step t i).ret t = some .unit) ∧
    ((g.step t i).calls t ≠ none → (g.step t i).os = g.os) := by
  cases i <;> by_cases hv : (g.os.sems x.obj).value = 0 <;>
    simp [G.step, hc, Call.next, Call.after, acquireNext, acquireAfter, sysStep, Sys.interruptible, hv,
      G.setCall, G.setRet, semWaitRetry]
  omega

/-- an acquire that is not interrupted returns exactly when a unit is available (it does not block
    while units are available, and it cannot return without one) -/
theorem acquire_enabled_iff_positive (g : G) (t : Tid) (x : PSem) (hc : g.calls t = some (.acquire x)) :
    (g.step t false).calls t = none ↔ 0 < (g.os.sems x.obj).value := by
  by_cases hv : (g.os.sems x.obj).value = 0 <;>
    simp [G.step, hc, Call.next, Call.after, acquireNext, acquireAfter, sysStep, Sys.interruptible, hv,
      G.setCall, G.setRet]
  omega

/-- `p_semaphore_release` is one `sem_post`: it returns at once and adds exactly one unit -/
theorem release_adds (g : G) (t : Tid) (i : Bool) (x : PSem) (hc : g.calls t = some (.release x)) :
    (g.step t i).calls t = none ∧ (g.step t i).ret t = some .unit ∧
    ((g.step t i).os.sems x.obj).value = (g.os.sems x.obj).value + 1 := by
  cases i <;>
    simp [G.step, hc, Call.next, Call.after, releaseNext, releaseAfter, sysStep, Sys.interruptible,
      G.setCall, G.setRet]

/-- any number of EINTR results of `sem_wait` is invisible: state, handles and result of an acquire
    are those of the uninterrupted call (cited by C19) -/
theorem acquire_eintr_transparent (g : G) (t : Tid) (h : Hid) (script : List Nat) :
    (g.call t (.acq h) script).Same (g.call t (.acq h) []) :=
  eintr_transparent g t (.acq h) script

/-- same for `sem_open` inside `p_semaphore_new`, at each of its call sites, both modes (cited by C19) -/
theorem sem_open_eintr_transparent (g : G) (t : Tid) (h : Hid) (k : SemKey) (init : Nat) (m : Mode) (script : List Nat) :
    (g.call t (.newSem h k init m) script).Same (g.call t (.newSem h k init m) []) :=
  eintr_transparent g t (.newSem h k init m) script

/-! ## 3. OPEN on an existing name ignores the initial value -/

theorem open_ignores_init_on_existing (g : G) (t : Tid) (h : Hid) (k : SemKey) (init o : Nat) (script : List Nat)
    (hi : Idle g t) (hh : g.hs h = none) (hk : g.os.semNames k = some o) :
    let g' := g.call t (.newSem h k init .open) script
    g'.os = g.os ∧ g'.hs h = some (g.pidOf t, .sem ⟨false, k, o, .open, init⟩) := by
  have hs := sem_open_eintr_transparent g t h k init .open script
  have h0 := call_newSem_open_present g t h k init o hi hh hk
  simp only
  rw [hs.1, hs.2.2.1, h0.1, h0.2.1]
  simp

/-! ## 4. CREATE resets -/

/-- `p_semaphore_new (CREATE, v)` succeeds whether or not the name exists; its handle and the name
    refer to a fresh object of value exactly `v`, and a later OPEN (any initial value `w`, any
    thread) joins that object and leaves the value alone.  (False of the code before fix F2.) -/
theorem create_resets (g : G) (t t' : Tid) (h h' : Hid) (k : SemKey) (v w : Nat) (script script' : List Nat)
    (hi : Idle g t) (hh : g.hs h = none) :
    let g1 := g.call t (.newSem h k v .create) script
    (∃ o, g1.os.semNames k = some o ∧ (g1.os.sems o).value = v ∧ g.os.nextObj ≤ o ∧
          g1.hs h = some (g.pidOf t, .sem ⟨true, k, o, .create, v⟩) ∧
          (Idle g1 t' → g1.hs h' = none →
            let g2 := g1.call t' (.newSem h' k w .open) script'
            g2.os = g1.os ∧ g2.hs h' = some (g1.pidOf t', .sem ⟨false, k, o, .open, w⟩))) := by
  have hs := sem_open_eintr_transparent g t h k v .create script
  simp only
  refine ⟨g.os.nextObj, ?_⟩
  have key : (g.call t (.newSem h k v .create)).os.semNames k = some g.os.nextObj ∧
      ((g.call t (.newSem h k v .create)).os.sems g.os.nextObj).value = v ∧
      (g.call t (.newSem h k v .create)).hs h = some (g.pidOf t, .sem ⟨true, k, g.os.nextObj, .create, v⟩) := by
    cases hk : g.os.semNames k with
    | none =>
      have h0 := call_newSem_absent g t h k v .create hi hh hk
      rw [h0.1, h0.2.1]; simp [OS.semCreate]
    | some o =>
      have h0 := call_newSem_create_present g t h k v o hi hh hk
      rw [h0.1, h0.2.1]; simp [OS.semCreate, OS.semRemove]
  refine ⟨by rw [hs.1]; exact key.1, by rw [hs.1]; exact key.2.1, Nat.le_refl _, by rw [hs.2.2.1]; exact key.2.2, ?_⟩
  intro hi' hh'
  exact open_ignores_init_on_existing (g.call t (.newSem h k v .create) script) t' h' k w g.os.nextObj script' hi' hh'
    (by rw [hs.1]; exact key.1)

/-! ## 5. owner free, then a fresh counter -/

/-- after `take_ownership; free` the name is gone, and the next `p_semaphore_new` (any mode, value
    `v`) binds it to a fresh object — different from every object that existed — of value `v` -/
theorem owner_free_fresh (g : G) (t t' : Tid) (h h' : Hid) (x : PSem) (v : Nat) (m : Mode)
    (hi : Idle g t) (hh : g.hs h = some (g.pidOf t, .sem x)) :
    let g2 := (g.call t (.own h)).call t (.free h)
    g2.os.semNames x.key = none ∧ g2.os.nextObj = g.os.nextObj ∧
    (Idle g2 t' → g2.hs h' = none →
      let g3 := g2.call t' (.newSem h' x.key v m)
      g3.os.semNames x.key = some g.os.nextObj ∧ (g3.os.sems g.os.nextObj).value = v ∧
      g3.hs h' = some (g2.pidOf t', .sem ⟨true, x.key, g.os.nextObj, m, v⟩) ∧
      (∀ o, o < g.os.nextObj → g3.os.sems o = g.os.sems o)) := by
  have o1 := call_own_sem g t h x hi hh
  have hi1 : Idle (g.call t (.own h)) t := ⟨by rw [o1.1, o1.2.2.2]; exact hi.alive, o1.2.2.1⟩
  have hh1 : (g.call t (.own h)).hs h = some ((g.call t (.own h)).pidOf t, .sem { x with created := true }) := by
    rw [o1.2.1, o1.2.2.2]; simp
  have body : ∀ g2 : G, g2.os.semNames x.key = none → g2.os.nextObj = g.os.nextObj → g2.os.sems = g.os.sems →
      (Idle g2 t' → g2.hs h' = none →
        let g3 := g2.call t' (.newSem h' x.key v m)
        g3.os.semNames x.key = some g.os.nextObj ∧ (g3.os.sems g.os.nextObj).value = v ∧
        g3.hs h' = some (g2.pidOf t', .sem ⟨true, x.key, g.os.nextObj, m, v⟩) ∧
        (∀ o, o < g.os.nextObj → g3.os.sems o = g.os.sems o)) := by
    intro g2 hn hno hsm hi2 hh2
    have c := call_newSem_absent g2 t' h' x.key v m hi2 hh2 hn
    simp only
    rw [c.1, c.2.1]
    simp only [OS.semCreate, hno, hsm, if_true, true_and]
    intro o ho
    have : o ≠ g.os.nextObj := Nat.ne_of_lt ho
    simp [this]
  simp only
  cases hk : g.os.semNames x.key with
  | none =>
    have f := call_free_sem_owner_unbound (g.call t (.own h)) t h { x with created := true } hi1 hh1 rfl (by rw [o1.1]; exact hk)
    refine ⟨by rw [f.1, o1.1]; exact hk, by rw [f.1, o1.1], ?_⟩
    exact body _ (by rw [f.1, o1.1]; exact hk) (by rw [f.1, o1.1]) (by rw [f.1, o1.1])
  | some o =>
    have f := call_free_sem_owner (g.call t (.own h)) t h { x with created := true } o hi1 hh1 rfl (by rw [o1.1]; exact hk)
    refine ⟨by rw [f.1, o1.1]; simp [OS.semRemove], by rw [f.1, o1.1]; rfl, ?_⟩
    exact body _ (by rw [f.1, o1.1]; simp [OS.semRemove]) (by rw [f.1, o1.1]; rfl) (by rw [f.1, o1.1]; rfl)

/-! ## 6. crash recovery -/

/-- the documented recovery after a crash: open, take ownership, free, create with value `v` -/
def recover (g : G) (t : Tid) (h1 h2 : Hid) (k : SemKey) (v : Nat) : G :=
  (((g.call t (.newSem h1 k 0 .open)).call t (.own h1)).call t (.free h1)).call t (.newSem h2 k v .create)

/-- From EVERY state `g` — in particular from every state reached by any schedule and a SIGKILL of
    any process between any two system calls of any library call (see `crash_recoverable`) — the
    sequence open → take_ownership → free → create(v), run by a live idle thread, ends with the
    name bound to a semaphore of value `v`, which later opens join. -/
theorem recover_from_any_state (g : G) (t : Tid) (h1 h2 : Hid) (k : SemKey) (v : Nat)
    (hi : Idle g t) (hh1 : g.hs h1 = none) (hh2 : g.hs h2 = none) (hne : h1 ≠ h2) :
    let g4 := recover g t h1 h2 k v
    ∃ o, g4.os.semNames k = some o ∧ (g4.os.sems o).value = v ∧
         g4.hs h2 = some (g.pidOf t, .sem ⟨true, k, o, .create, v⟩) ∧ g4.calls t = none ∧
         (∀ t' h' w, Idle g4 t' → g4.hs h' = none →
            (g4.call t' (.newSem h' k w .open)).os = g4.os ∧
            (g4.call t' (.newSem h' k w .open)).hs h' = some (g4.pidOf t', .sem ⟨false, k, o, .open, w⟩)) := by
  -- step 1: open (two cases), the name is bound afterwards and h1 is a handle of it
  have s1 : ∃ x o1, (g.call t (.newSem h1 k 0 .open)).os.semNames k = some o1 ∧ x.key = k ∧
      (g.call t (.newSem h1 k 0 .open)).hs = (fun h' => if h' = h1 then some (g.pidOf t, .sem x) else g.hs h') ∧
      (g.call t (.newSem h1 k 0 .open)).calls t = none ∧ (g.call t (.newSem h1 k 0 .open)).pidOf = g.pidOf ∧
      (g.call t (.newSem h1 k 0 .open)).os.procs = g.os.procs := by
    cases hk : g.os.semNames k with
    | none =>
      have c := call_newSem_absent g t h1 k 0 .open hi hh1 hk
      exact ⟨_, g.os.nextObj, by rw [c.1]; simp [OS.semCreate], rfl, c.2.1, c.2.2.1, c.2.2.2, by rw [c.1]; rfl⟩
    | some o =>
      have c := call_newSem_open_present g t h1 k 0 o hi hh1 hk
      exact ⟨_, o, by rw [c.1]; exact hk, rfl, c.2.1, c.2.2.1, c.2.2.2, by rw [c.1]⟩
  obtain ⟨x, o1, n1, xk, hs1, c1, p1, pr1⟩ := s1
  generalize hg1 : g.call t (.newSem h1 k 0 .open) = g1 at n1 hs1 c1 p1 pr1
  have hi1 : Idle g1 t := ⟨by rw [pr1, p1]; exact hi.alive, c1⟩
  have hh1' : g1.hs h1 = some (g1.pidOf t, .sem x) := by rw [hs1, p1]; simp
  -- step 2: take ownership
  have o2 := call_own_sem g1 t h1 x hi1 hh1'
  generalize hg2 : g1.call t (.own h1) = g2 at o2
  have hi2 : Idle g2 t := ⟨by rw [o2.1, o2.2.2.2]; exact hi1.alive, o2.2.2.1⟩
  have hh2' : g2.hs h1 = some (g2.pidOf t, .sem { x with created := true }) := by rw [o2.2.1, o2.2.2.2]; simp
  -- step 3: free as owner: the name is removed
  have f3 := call_free_sem_owner g2 t h1 { x with created := true } o1 hi2 hh2' rfl (by rw [o2.1]; simp [xk, n1])
  generalize hg3 : g2.call t (.free h1) = g3 at f3
  have hi3 : Idle g3 t := ⟨by rw [f3.1, f3.2.2.2]; exact hi2.alive, f3.2.2.1⟩
  have hn3 : g3.os.semNames k = none := by rw [f3.1]; simp [OS.semRemove, xk]
  have hh3 : g3.hs h2 = none := by
    rw [f3.2.1, o2.2.1, hs1]; simp [Ne.symm hne, hh2]
  -- step 4: create
  have c4 := call_newSem_absent g3 t h2 k v .create hi3 hh3 hn3
  have hp : g3.pidOf = g.pidOf := by rw [f3.2.2.2, o2.2.2.2, p1]
  simp only [recover, hg1, hg2, hg3]
  generalize hg4 : g3.call t (.newSem h2 k v .create) = g4 at c4
  refine ⟨g3.os.nextObj, by rw [c4.1]; simp [OS.semCreate], by rw [c4.1]; simp [OS.semCreate],
    by rw [c4.2.1, hp]; simp, c4.2.2.1, ?_⟩
  intro t' h' w hi' hh'
  have c5 := call_newSem_open_present g4 t' h' k w g3.os.nextObj hi' hh' (by rw [c4.1]; simp [OS.semCreate])
  exact ⟨c5.1, by rw [c5.2.1]; simp⟩

/-- the state after thread `tc` has made `j` system calls of the library call `op` and its process is SIGKILLed -/
def crashAt (g : G) (tc : Tid) (op : Op) (j : Nat) : G :=
  ((List.replicate j (Action.step tc false)).foldl exec (g.start tc op)).kill (g.pidOf tc)

/-- A name left behind by a process killed at ANY point — after any schedule `as` from any state,
    thread `tc` starts any library call `op`, makes any number `j` of its system calls (with any
    further schedule `bs` of the others in between) and its process is killed — can always be cleaned up and
    re-created by the documented sequence, run by a thread of a live process. -/
theorem crash_recoverable (g0 : G) (as bs : List Action) (tc : Tid) (op : Op) (j : Nat)
    (t : Tid) (h1 h2 : Hid) (k : SemKey) (v : Nat) :
    let gc := crashAt (execAll (execAll g0 as) bs) tc op j
    Idle gc t → gc.hs h1 = none → gc.hs h2 = none → h1 ≠ h2 →
    ∃ o, (recover gc t h1 h2 k v).os.semNames k = some o ∧ ((recover gc t h1 h2 k v).os.sems o).value = v ∧
         (∀ t' h' w, Idle (recover gc t h1 h2 k v) t' → (recover gc t h1 h2 k v).hs h' = none →
            ((recover gc t h1 h2 k v).call t' (.newSem h' k w .open)).hs h' =
              some ((recover gc t h1 h2 k v).pidOf t', .sem ⟨false, k, o, .open, w⟩) ∧
            ((recover gc t h1 h2 k v).call t' (.newSem h' k w .open)).os = (recover gc t h1 h2 k v).os) := by
  intro gc hi hh1 hh2 hne
  obtain ⟨o, a, b, _, _, e⟩ := recover_from_any_state gc t h1 h2 k v hi hh1 hh2 hne
  exact ⟨o, a, b, fun t' h' w x y => ⟨(e t' h' w x y).2, (e t' h' w x y).1⟩⟩

/-! ## 7. k-exclusion -/

/-- For any number of threads and processes and every schedule: successful acquisitions minus
    releases of an object since a state in which its value was `v` never exceed `v` — when the
    semaphore is used as acquire … release, at most `v` holders are between the two. -/
theorem k_exclusion (g : G) (as : List Action) (o : ObjId) (v : Nat) (ho : o < g.os.nextObj)
    (hv : (g.os.sems o).value = v) :
    (acquired o (execAll g as).log - acquired o g.log) ≤ v + (released o (execAll g as).log - released o g.log) ∧
    ((execAll g as).os.sems o).value + (acquired o (execAll g as).log - acquired o g.log)
      = v + (released o (execAll g as).log - released o g.log) := by
  have h := (counter_execAll o as g ho).1
  have mono : ∀ (as : List Action) (g : G), acquired o g.log ≤ acquired o (execAll g as).log ∧
      released o g.log ≤ released o (execAll g as).log := by
    intro as
    induction as with
    | nil => intro g; exact ⟨Nat.le_refl _, Nat.le_refl _⟩
    | cons a as ih =>
      intro g
      have h2 := ih (exec g a)
      have h1 : acquired o g.log ≤ acquired o (exec g a).log ∧ released o g.log ≤ released o (exec g a).log := by
        cases a with
        | start t op => simp only [exec]; rw [start_log]; exact ⟨Nat.le_refl _, Nat.le_refl _⟩
        | kill p => exact ⟨Nat.le_refl _, Nat.le_refl _⟩
        | fail t e =>
          simp only [exec]
          cases hc : g.calls t with
          | none => rw [fail_none g t e hc]; exact ⟨Nat.le_refl _, Nat.le_refl _⟩
          | some c =>
            rw [fail_log g t e c hc]
            simp only [acquired, released, List.filter_cons]
            constructor <;> split <;> simp
        | step t i =>
          simp only [exec]
          cases hc : g.calls t with
          | none => rw [step_none g t i hc]; exact ⟨Nat.le_refl _, Nat.le_refl _⟩
          | some c =>
            rw [step_log g t i c hc]
            simp only [acquired, released, List.filter_cons]
            constructor <;> split <;> simp
      simp only [execAll, List.foldl_cons] at h2 ⊢
      exact ⟨Nat.le_trans h1.1 h2.1, Nat.le_trans h1.2 h2.2⟩
  have m := mono as g
  omega

/-! ## 8. failing system calls

`Action.fail t e`: the system call thread `t` is about to make is not performed and returns `-1 / errno = e` (EMFILE,
ENOMEM, EACCES, a failing `sem_post`, …) — a result the name-space machine never produces by itself.  Every theorem above
that quantifies over schedules (`List Action`) quantifies over such failures too: `one_counter_per_name`, `k_exclusion`,
`other_*_untouched`, `crash_recoverable` hold for schedules in which any system call of any call fails.  `released` counts
the `sem_post` calls that succeeded.  Sequential statements use `G.callF` (failure script: index of the call ↦ errno). -/

/-- a failed system call changes nothing in the OS (no name, no counter) and creates no handle -/
theorem failed_call_touches_nothing (g : G) (t : Tid) (e : Errno) :
    (g.fail t e).os = g.os ∧ (g.fail t e).hs = g.hs := ⟨fail_os g t e, fail_hs g t e⟩

/-- `p_semaphore_new` whose first `sem_open` fails with anything but EINTR / EEXIST: clean failure -/
theorem new_failure_is_clean (g : G) (t : Tid) (h : Hid) (k : SemKey) (init : Nat) (m : Mode) (e : Errno)
    (hi : Idle g t) (hh : g.hs h = none) (h1 : e ≠ .EINTR) (h2 : e ≠ .EEXIST) :
    let g' := g.callF t (.newSem h k init m) [(0, e)]
    g'.os = g.os ∧ g'.hs = g.hs ∧ g'.ret t = some (.fail e) ∧ g'.calls t = none := by
  cases e <;> simp at h1 h2 <;> fail_simp [hi.alive, hi.idle, hh]

/-- `p_semaphore_acquire` whose `sem_wait` fails with anything but EINTR: FALSE, no unit consumed -/
theorem acquire_failure_consumes_nothing (g : G) (t : Tid) (h : Hid) (x : PSem) (e : Errno)
    (hi : Idle g t) (hh : g.hs h = some (g.pidOf t, .sem x)) (h1 : e ≠ .EINTR) :
    let g' := g.callF t (.acq h) [(0, e)]
    g'.os = g.os ∧ g'.hs = g.hs ∧ g'.ret t = some (.fail e) ∧ g'.calls t = none := by
  cases e <;> simp at h1 <;> fail_simp [hi.alive, hi.idle, hh]

/-- `p_semaphore_release` whose `sem_post` fails: FALSE, no unit added -/
theorem release_failure_adds_nothing (g : G) (t : Tid) (h : Hid) (x : PSem) (e : Errno)
    (hi : Idle g t) (hh : g.hs h = some (g.pidOf t, .sem x)) :
    let g' := g.callF t (.rel h) [(0, e)]
    g'.os = g.os ∧ g'.hs = g.hs ∧ g'.ret t = some (.fail e) ∧ g'.calls t = none := by
  fail_simp [hi.alive, hi.idle, hh]


/-- non-vacuity: the hypotheses hold in the initial state / in `demo`, and the schedule theorems really cover failures -/
example := new_failure_is_clean (G.init id) 0 0 (.user 0) 3 .create .EACCES ⟨rfl, rfl⟩ rfl (by decide) (by decide)
example : ((G.init id).callF 0 (.newSem 0 (.user 0) 3 .create) [(0, .EMFILE)]).ret 0 = some (.fail .EMFILE) := by decide
example : (((G.init id).call 0 (.newSem 0 (.user 0) 1 .open)).callF 0 (.acq 0) [(0, .EINVAL)]).ret 0 = some (.fail .EINVAL) ∧
    ((((G.init id).call 0 (.newSem 0 (.user 0) 1 .open)).callF 0 (.acq 0) [(0, .EINVAL)]).os.sems 0).value = 1 ∧
    ((((G.init id).call 0 (.newSem 0 (.user 0) 1 .open)).callF 0 (.rel 0) [(0, .EINVAL)]).os.sems 0).value = 1 ∧
    -- CREATE on an existing name whose `sem_unlink` fails: the re-create sees EEXIST and the loop unlinks again
    (((G.init id).call 0 (.newSem 0 (.user 0) 1 .open)).callF 1 (.newSem 1 (.user 0) 5 .create) [(1, .EACCES)]).ret 1
      = some (.sem ⟨true, .user 0, 1, .create, 5⟩) := by decide
example := k_exclusion (G.init id) [.start 0 (.newSem 0 (.user 0) 1 .open), .fail 0 .ENOMEM] 0 0
/-- a failed release is not counted: one successful acquire, one failed release, the unit is still taken -/
example : let g := execAll ((G.init id).call 0 (.newSem 0 (.user 0) 1 .open)) [.start 0 (.acq 0), .step 0 false, .start 0 (.rel 0), .fail 0 .EINVAL]
    acquired 0 g.log = 1 ∧ released 0 g.log = 0 ∧ (g.os.sems 0).value = 0 := by decide

/-! ## non-vacuity -/

/-- a state in which a name is bound and two processes hold handles of it (built with the model itself) -/
def demo : G :=
  ((G.init id).call 0 (.newSem 0 (.user 0) 2 .open)).call 1 (.newSem 1 (.user 0) 9 .open)

theorem demo_facts :
    Agree (.user 0) 0 demo ∧ (demo.os.sems 0).value = 2 ∧ demo.os.nextObj = 1 ∧ (∀ t, demo.calls t = none) ∧
    (∀ t, (demo.os.procs (demo.pidOf t)).alive = true) ∧ demo.hs 2 = none ∧ demo.hs 3 = none ∧
    demo.hs 1 = some (1, .sem ⟨false, .user 0, 0, .open, 9⟩) ∧ demo.pidOf = id := by
  have i0 : Idle (G.init id) 0 := ⟨rfl, rfl⟩
  have c0 := call_newSem_absent (G.init id) 0 0 (.user 0) 2 .open i0 rfl rfl
  have k0 := fun t' (h : t' ≠ 0) => call_calls_other (G.init id) 0 (.newSem 0 (.user 0) 2 .open) [] t' h
  generalize hg : (G.init id).call 0 (.newSem 0 (.user 0) 2 .open) = g1 at c0 k0
  have i1 : Idle g1 1 := ⟨by rw [c0.1]; rfl, by rw [k0 1 (by decide)]; rfl⟩
  have n1 : g1.os.semNames (.user 0) = some 0 := by rw [c0.1]; simp [OS.semCreate, G.init, OS.init]
  have c1 := call_newSem_open_present g1 1 1 (.user 0) 9 0 i1 (by rw [c0.2.1]; simp [G.init]) n1
  have k1 := fun t' (h : t' ≠ 1) => call_calls_other g1 1 (.newSem 1 (.user 0) 9 .open) [] t' h
  simp only [demo, hg]
  refine ⟨⟨by rw [c1.1]; exact n1, ?_, ?_⟩, by rw [c1.1, c0.1]; simp [OS.semCreate, G.init, OS.init],
    by rw [c1.1, c0.1]; simp [OS.semCreate, G.init, OS.init], ?_, ?_, ?_, ?_, ?_, ?_⟩
  · intro h p x hx hk
    rw [c1.2.1, c0.2.1] at hx
    simp only [G.init] at hx
    split at hx
    · simp at hx; rw [← hx.2]
    · split at hx
      · simp at hx; rw [← hx.2]; rfl
      · simp at hx
  · intro h p y hy
    rw [c1.2.1, c0.2.1] at hy
    simp only [G.init] at hy
    split at hy
    · simp at hy
    · split at hy <;> simp at hy
  · intro t
    by_cases e1 : t = 1
    · subst e1; exact c1.2.2.1
    · rw [k1 t e1]
      by_cases e0 : t = 0
      · subst e0; exact c0.2.2.1
      · rw [k0 t e0]; rfl
  · intro t; rw [c1.1, c0.1]; rfl
  · rw [c1.2.1, c0.2.1]; simp [G.init]
  · rw [c1.2.1, c0.2.1]; simp [G.init]
  · rw [c1.2.1, c0.2.2.2]; simp [G.init]
  · rw [c1.2.2.2, c0.2.2.2]; rfl

/-- `one_counter_per_name` / `same_counter` / `k_exclusion` have inhabitants of their hypotheses -/
example : Agree (.user 0) 0 demo ∧ (0 : ObjId) < demo.os.nextObj ∧ (demo.os.sems 0).value = 2 :=
  ⟨demo_facts.1, by rw [demo_facts.2.2.1]; decide, demo_facts.2.1⟩

/-- `QuietRun` holds while a third process is in the middle of an OPEN-mode `p_semaphore_new` of the name -/
example : QuietRun (.user 0) demo [.start 2 (.newSem 2 (.user 0) 5 .open), .kill 2] := by
  obtain ⟨_, _, _, hidle, halive, h2, _, _, _⟩ := demo_facts
  refine ⟨quiet_of_idle _ _ hidle, ?_, trivial⟩
  intro t c hc
  have hs : exec demo (.start 2 (.newSem 2 (.user 0) 5 .open)) =
      demo.setCall 2 (some (.semNew 2 { key := .user 0, mode := .open, init := 5, pc := .excl })) := by
    simp [exec, G.start, halive 2, hidle 2, h2]
  rw [hs] at hc
  simp only [G.setCall] at hc
  split at hc
  · simp only [Option.some.injEq] at hc; subst hc
    simp [Call.quiet, SemNewSt.mayUnlink]
  · rw [hidle t] at hc; cases hc

/-- the hypotheses of the sequential theorems (`Idle`, free handle slots, a live handle) are satisfiable -/
example : Idle demo 1 ∧ demo.hs 2 = none ∧ demo.hs 3 = none ∧ (2 : Hid) ≠ 3 ∧
    demo.hs 1 = some (demo.pidOf 1, .sem ⟨false, .user 0, 0, .open, 9⟩) := by
  obtain ⟨_, _, _, hidle, halive, h2, h3, h1, hp⟩ := demo_facts
  exact ⟨⟨halive 1, hidle 1⟩, h2, h3, by decide, by rw [h1, hp]; rfl⟩

end PV.IPC.C06

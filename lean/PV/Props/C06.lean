import PV.Model.IPC
namespace PV.IPC
theorem c06_placeholder : (OS.init.semNames (.user 0)) = none := rfl
end PV.IPC

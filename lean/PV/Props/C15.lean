import PV.Model.HashTable
/-!
# C15 — hash table and list match their reference models

Spec: a map `Ptr → Option Ptr` (function) and plain `List` operations.
All theorems are for every 64-bit key/value pattern and every operation sequence.
Creation under allocation failure (`newTable_failure_clean`, `newTable_ok`; harness op `newf K`) is at the end.
-/
namespace PV.HT
open PV.Generated

/-! ## helper lemmas on chains -/

theorem findNode_setNode (c : Chain) (k v k' : Ptr) (h : (findNode c k).isSome) :
    findNode (setNode c k v) k' = if k' = k then some v else findNode c k' := by
  induction c with
  | nil => simp [findNode] at h
  | cons p rest ih =>
    obtain ⟨a, b⟩ := p
    by_cases hak : a = k
    · subst hak
      by_cases hk : a = k'
      · subst hk; simp [setNode, findNode]
      · have : ¬ k' = a := fun e => hk e.symm
        simp [setNode, findNode, hk, this]
    · have h' : (findNode rest k).isSome := by simpa [findNode, hak] using h
      by_cases hk : a = k'
      · subst hk
        have : ¬ a = k := hak
        simp [setNode, findNode, hak]
      · simp [setNode, findNode, hak, hk, ih h']

theorem findNode_unlink (c : Chain) (k k' : Ptr) (hnd : (c.map (·.1)).Nodup) :
    findNode (unlink c k) k' = if k' = k then none else findNode c k' := by
  induction c with
  | nil => simp [unlink, findNode]
  | cons p rest ih =>
    obtain ⟨a, b⟩ := p
    simp only [List.map_cons, List.nodup_cons] at hnd
    by_cases hak : a = k
    · subst hak
      by_cases hk : a = k'
      · subst hk
        simp only [unlink, if_true]
        -- a not in rest
        have : ∀ (c : Chain), a ∉ c.map (·.1) → findNode c a = none := by
          intro c; induction c with
          | nil => intro _; rfl
          | cons q r ihr =>
            obtain ⟨x, y⟩ := q
            intro hn
            simp only [List.map_cons, List.mem_cons, not_or] at hn
            have hx : ¬ x = a := fun e => hn.1 e.symm
            simp [findNode, hx, ihr hn.2]
        exact this rest hnd.1
      · have : ¬ k' = a := fun e => hk e.symm
        simp [unlink, findNode, hk, this]
    · by_cases hk : a = k'
      · subst hk
        simp [unlink, findNode, hak]
      · simp [unlink, findNode, hak, hk, ih hnd.2]

theorem keys_setNode (c : Chain) (k v : Ptr) : (setNode c k v).map (·.1) = c.map (·.1) := by
  induction c with
  | nil => rfl
  | cons p rest ih =>
    obtain ⟨a, b⟩ := p
    by_cases hak : a = k <;> simp [setNode, hak, ih]

theorem unlink_sublist (c : Chain) (k : Ptr) : (unlink c k).Sublist c := by
  induction c with
  | nil => exact List.Sublist.refl _
  | cons p rest ih =>
    obtain ⟨a, b⟩ := p
    by_cases hak : a = k
    · simp [unlink, hak]
    · simp only [unlink, hak, if_false]
      exact ih.cons_cons _

theorem findNode_isSome_iff (c : Chain) (k : Ptr) : (findNode c k).isSome ↔ k ∈ c.map (·.1) := by
  induction c with
  | nil => simp [findNode]
  | cons p rest ih =>
    obtain ⟨a, b⟩ := p
    by_cases hak : a = k
    · simp [findNode, hak]
    · have : ¬ k = a := fun e => hak e.symm
      simp [findNode, hak, this, ih]

theorem findNode_eq_some_iff (c : Chain) (k v : Ptr) (hnd : (c.map (·.1)).Nodup) :
    findNode c k = some v ↔ (k, v) ∈ c := by
  induction c with
  | nil => simp [findNode]
  | cons p rest ih =>
    obtain ⟨a, b⟩ := p
    simp only [List.map_cons, List.nodup_cons] at hnd
    by_cases hak : a = k
    · subst hak
      constructor
      · intro h; simp [findNode] at h; simp [h]
      · intro h
        simp only [List.mem_cons, Prod.mk.injEq, true_and] at h
        rcases h with h | h
        · simp [findNode, h]
        · exact absurd (List.mem_map_of_mem (f := (·.1)) h) hnd.1
    · have : ¬ k = a := fun e => hak e.symm
      simp [findNode, hak, this, ih hnd.2]

/-! ## well-formedness -/

/-- every chain sits in the bucket its keys hash to, and holds each key at most once -/
structure WF (t : Table) : Prop where
  len : t.length = hashTableSize
  home : ∀ (i : Nat) (c : Chain), t[i]? = some c → ∀ p ∈ c, hash p.1 = some i
  nodup : ∀ (i : Nat) (c : Chain), t[i]? = some c → (c.map (·.1)).Nodup

theorem hash_lt {k : Ptr} {h : Nat} (hk : hash k = some h) : h < hashTableSize := by
  unfold hash calcHash at hk
  cases hs : hashSum hashAddSigned hashAddend k with
  | none => simp [hs] at hk
  | some s =>
    simp only [hs, Option.map_some, Option.some.injEq] at hk
    subst hk
    unfold bucketOfSum
    exact Nat.mod_lt _ (by decide)

theorem wf_empty : WF empty := by
  refine ⟨by simp [empty], ?_, ?_⟩
  · intro i c hc p hp
    simp only [empty, List.getElem?_replicate] at hc
    split at hc
    · cases hc; cases hp
    · cases hc
  · intro i c hc
    simp only [empty, List.getElem?_replicate] at hc
    split at hc
    · cases hc; simp
    · cases hc

theorem chainAt_get (t : Table) (h : Nat) (hl : h < t.length) : t[h]? = some (chainAt t h) := by
  simp [chainAt, List.getElem?_eq_getElem hl]

theorem chainAt_set (t : Table) (h i : Nat) (c : Chain) (hl : h < t.length) :
    chainAt (t.set h c) i = if i = h then c else chainAt t i := by
  simp only [chainAt, List.getElem?_set]
  by_cases hi : h = i
  · subst hi; simp [hl]
  · have : ¬ i = h := fun e => hi e.symm
    simp [hi, this]

/-- replacing one chain by a chain that is still at home and duplicate-free keeps `WF` -/
theorem wf_set {t : Table} (wf : WF t) {h : Nat} (hl : h < t.length) (c : Chain)
    (hhome : ∀ p ∈ c, hash p.1 = some h) (hnd : (c.map (·.1)).Nodup) : WF (t.set h c) := by
  refine ⟨by simp [wf.len], ?_, ?_⟩
  · intro i c' hc p hp
    rw [List.getElem?_set] at hc
    split at hc
    · next hi =>
      subst hi
      simp only [Option.some.injEq] at hc
      subst hc
      exact hhome p hp
    · exact wf.home i c' hc p hp
  · intro i c' hc
    rw [List.getElem?_set] at hc
    split at hc
    · next hi =>
      subst hi
      simp only [Option.some.injEq] at hc
      subst hc
      exact hnd
    · exact wf.nodup i c' hc

theorem wf_insertAt {t : Table} (wf : WF t) {k v : Ptr} {h : Nat} (hk : hash k = some h) :
    WF (insertAt t h k v) := by
  have hl : h < t.length := by rw [wf.len]; exact hash_lt hk
  have hget := chainAt_get t h hl
  unfold insertAt
  split
  · next hf =>
    apply wf_set wf hl
    · intro p hp
      have hm : p.1 ∈ (setNode (chainAt t h) k v).map (·.1) := List.mem_map_of_mem hp
      rw [keys_setNode] at hm
      obtain ⟨q, hq, hq1⟩ := List.mem_map.mp hm
      rw [← hq1]
      exact wf.home _ _ hget q hq
    · rw [keys_setNode]; exact wf.nodup _ _ hget
  · next hf =>
    apply wf_set wf hl
    · intro p hp
      rcases List.mem_cons.mp hp with rfl | hp
      · exact hk
      · exact wf.home _ _ hget p hp
    · simp only [List.map_cons, List.nodup_cons]
      refine ⟨?_, wf.nodup _ _ hget⟩
      intro hm
      exact hf ((findNode_isSome_iff _ _).mpr hm)

theorem wf_removeAt {t : Table} (wf : WF t) {k : Ptr} {h : Nat} (hk : hash k = some h) :
    WF (removeAt t h k) := by
  have hl : h < t.length := by rw [wf.len]; exact hash_lt hk
  have hget := chainAt_get t h hl
  unfold removeAt
  split
  · have hsub := unlink_sublist (chainAt t h) k
    apply wf_set wf hl
    · intro p hp; exact wf.home _ _ hget p (hsub.subset hp)
    · exact (wf.nodup _ _ hget).sublist (hsub.map _)
  · exact wf

/-! ## the abstraction and the refinement theorems -/

/-- what the table means: the map from keys to stored values -/
def abs (t : Table) (k : Ptr) : Option Ptr :=
  match hash k with
  | some h => findNode (chainAt t h) k
  | none => none

/-- **insert adds or overwrites, other keys untouched** (for every key the hash is defined on) -/
theorem abs_insert {t t' : Table} (wf : WF t) {k v : Ptr} (hi : insert t k v = some t') (k' : Ptr)
    (hk' : (hash k').isSome) :
    abs t' k' = if k' = k then some v else abs t k' := by
  unfold insert at hi
  cases hk : hash k with
  | none => simp [hk] at hi
  | some h =>
    simp only [hk, Option.map_some, Option.some.injEq] at hi
    subst hi
    have hl : h < t.length := by rw [wf.len]; exact hash_lt hk
    obtain ⟨h', hh'⟩ := Option.isSome_iff_exists.mp hk'
    unfold abs insertAt
    simp only [hh']
    split
    · next hf =>
      rw [chainAt_set _ _ _ _ hl]
      by_cases e : k' = k
      · subst e
        have : h' = h := by simpa [hk] using hh'.symm
        subst this
        simp only [if_true]
        rw [findNode_setNode _ _ _ _ hf]
        simp
      · by_cases eh : h' = h
        · subst eh
          simp only [if_true, e, if_false]
          rw [findNode_setNode _ _ _ _ hf]
          simp [e]
        · simp [eh, e]
    · next hf =>
      rw [chainAt_set _ _ _ _ hl]
      by_cases e : k' = k
      · subst e
        have : h' = h := by simpa [hk] using hh'.symm
        subst this
        simp [findNode]
      · by_cases eh : h' = h
        · subst eh
          have : ¬ k = k' := fun x => e x.symm
          simp [findNode, this, e]
        · simp [eh, e]

/-- **remove deletes only that key** -/
theorem abs_remove {t t' : Table} (wf : WF t) {k : Ptr} (hi : remove t k = some t') (k' : Ptr)
    (hk' : (hash k').isSome) :
    abs t' k' = if k' = k then none else abs t k' := by
  unfold remove at hi
  cases hk : hash k with
  | none => simp [hk] at hi
  | some h =>
    simp only [hk, Option.map_some, Option.some.injEq] at hi
    subst hi
    have hl : h < t.length := by rw [wf.len]; exact hash_lt hk
    have hget := chainAt_get t h hl
    obtain ⟨h', hh'⟩ := Option.isSome_iff_exists.mp hk'
    unfold abs removeAt
    simp only [hh']
    split
    · next hf =>
      rw [chainAt_set _ _ _ _ hl]
      by_cases eh : h' = h
      · subst eh
        simp only [if_true]
        exact findNode_unlink _ _ _ (wf.nodup _ _ hget)
      · have : ¬ k' = k := by
          intro e; subst e
          exact eh (by simpa [hk] using hh'.symm)
        simp [eh, this]
    · next hf =>
      by_cases e : k' = k
      · subst e
        have : h' = h := by simpa [hk] using hh'.symm
        subst this
        simp only [if_true]
        cases hfn : findNode (chainAt t h') k' with
        | none => rfl
        | some w => simp [hfn] at hf
      · simp [e]

/-- **lookup returns the stored value or the not-found marker** -/
theorem lookup_eq_abs (t : Table) (k : Ptr) (h : Nat) (hk : hash k = some h) :
    lookup t k = some (abs t k) := by
  simp [lookup, abs, hk]

theorem abs_empty (k : Ptr) : abs empty k = none := by
  unfold abs
  cases hk : hash k with
  | none => rfl
  | some h =>
    have := hash_lt hk
    simp [empty, chainAt, List.getElem?_replicate, this, findNode]

/-- **keys/values list exactly the current content**: `(k, v)` is a listed node iff the map
    sends `k` to `v`; -/
theorem mem_nodes_iff {t : Table} (wf : WF t) (k v : Ptr) :
    (k, v) ∈ nodes t ↔ abs t k = some v := by
  unfold nodes abs
  constructor
  · intro hm
    obtain ⟨c, hc, hp⟩ := List.mem_flatten.mp hm
    obtain ⟨i, hi, hci⟩ := List.mem_iff_getElem.mp hc
    have hget : t[i]? = some c := by simp [List.getElem?_eq_getElem hi, hci]
    have hh := wf.home i c hget _ hp
    simp only at hh
    simp only [hh]
    have : chainAt t i = c := by simp [chainAt, hget]
    rw [this]
    exact (findNode_eq_some_iff c k v (wf.nodup i c hget)).mpr hp
  · intro hf
    cases hk : hash k with
    | none => simp [hk] at hf
    | some h =>
      simp only [hk] at hf
      have hl : h < t.length := by rw [wf.len]; exact hash_lt hk
      have hget := chainAt_get t h hl
      have := (findNode_eq_some_iff _ k v (wf.nodup _ _ hget)).mp hf
      exact List.mem_flatten.mpr ⟨_, List.mem_of_getElem? hget, this⟩

/-- each key is listed at most once -/
theorem keys_nodup {t : Table} (wf : WF t) : (keys t).Nodup := by
  unfold keys nodes
  rw [List.map_flatten]
  unfold List.Nodup
  rw [List.pairwise_flatten]
  constructor
  · intro l hl
    obtain ⟨c, hc, rfl⟩ := List.mem_map.mp hl
    obtain ⟨i, hi, hci⟩ := List.mem_iff_getElem.mp hc
    exact wf.nodup i c (by simp [List.getElem?_eq_getElem hi, hci])
  · rw [List.pairwise_map]
    rw [List.pairwise_iff_getElem]
    intro i j hi hj hij
    intro a ha b hb hab
    obtain ⟨p, hp, rfl⟩ := List.mem_map.mp ha
    obtain ⟨q, hq, hpq⟩ := List.mem_map.mp hb
    rw [← hab] at hpq
    have h1 := wf.home i t[i] (by simp [List.getElem?_eq_getElem hi]) p hp
    have h2 := wf.home j t[j] (by simp [List.getElem?_eq_getElem hj]) q hq
    rw [hpq] at h2
    rw [h1] at h2
    injection h2 with h2
    omega

theorem keys_values_zip (t : Table) : (keys t).zip (values t) = nodes t := by
  unfold keys values
  generalize nodes t = l
  induction l with
  | nil => rfl
  | cons p r ih => simp [ih]

theorem lookupByValue_spec {t : Table} (wf : WF t) (v k : Ptr) :
    k ∈ lookupByValue t v ↔ abs t k = some v := by
  unfold lookupByValue
  rw [← mem_nodes_iff wf]
  constructor
  · intro h
    obtain ⟨p, hp, rfl⟩ := List.mem_map.mp h
    have := List.mem_filter.mp hp
    have e : p.2 = v := by simpa using this.2
    rw [← e]; exact this.1
  · intro h
    exact List.mem_map.mpr ⟨(k, v), List.mem_filter.mpr ⟨h, by simp⟩, rfl⟩

/-- lookup by value through a compare function lists exactly the keys whose current value the function calls equal
    (`p x` = `func (x, val) == 0`), for any such function -/
theorem lookupByValueF_spec {t : Table} (wf : WF t) (p : Ptr → Bool) (k : Ptr) :
    k ∈ lookupByValueF t p ↔ ∃ v, abs t k = some v ∧ p v = true := by
  unfold lookupByValueF
  constructor
  · intro h
    obtain ⟨n, hn, rfl⟩ := List.mem_map.mp h
    have := List.mem_filter.mp hn
    exact ⟨n.2, (mem_nodes_iff wf n.1 n.2).mp this.1, this.2⟩
  · rintro ⟨v, hv, hp⟩
    exact List.mem_map.mpr ⟨(k, v), List.mem_filter.mpr ⟨(mem_nodes_iff wf k v).mpr hv, hp⟩, rfl⟩

/-- … each such key once -/
theorem lookupByValueF_nodup {t : Table} (wf : WF t) (p : Ptr → Bool) : (lookupByValueF t p).Nodup := by
  have h := keys_nodup wf
  unfold keys at h
  unfold lookupByValueF
  exact (List.filter_sublist.map _).nodup h

/-- without a function the comparison is pointer equality on the full word -/
theorem lookupByValue_eq_F (t : Table) (v : Ptr) : lookupByValue t v = lookupByValueF t (fun x => x = v) := by
  simp [lookupByValue, lookupByValueF]

/-! ## whole operation sequences refine the map -/

inductive Op where
  | ins (k v : Ptr) | rem (k : Ptr) | get (k : Ptr)

def Spec := Ptr → Option Ptr
def specStep (m : Spec) : Op → Spec × Option (Option Ptr)
  | .ins k v => (fun k' => if k' = k then some v else m k', none)
  | .rem k => (fun k' => if k' = k then none else m k', none)
  | .get k => (m, some (m k))

def step (t : Table) : Op → Option (Table × Option (Option Ptr))
  | .ins k v => (insert t k v).map (·, none)
  | .rem k => (remove t k).map (·, none)
  | .get k => (lookup t k).map fun r => (t, some r)

def run (t : Table) : List Op → Option (Table × List (Option (Option Ptr)))
  | [] => some (t, [])
  | op :: ops => do
      let (t', o) ← step t op
      let (t'', os) ← run t' ops
      pure (t'', o :: os)

def specRun (m : Spec) : List Op → Spec × List (Option (Option Ptr))
  | [] => (m, [])
  | op :: ops =>
      let (m', o) := specStep m op
      let (m'', os) := specRun m' ops
      (m'', o :: os)

/-- the hash computation is defined (no undefined behaviour) for **every** key -/
theorem hash_no_ub (k : Ptr) : (hash k).isSome := by
  simp [hash, calcHash, hashSum, hashAddSigned]

/-! ### insert while the allocator fails -/

/-- the key is stored already: no allocation is needed, the insert overwrites as always -/
theorem insertOOM_present {t : Table} {k v : Ptr} {h : Nat} (hk : hash k = some h)
    (hp : (findNode (chainAt t h) k).isSome) : insertOOM t k v = insert t k v := by
  simp [insertOOM, insert, hk, insertAtOOM, insertAt, hp]

/-- a new key: nothing is added and nothing else changes — the table is the same table -/
theorem insertOOM_absent {t : Table} {k v : Ptr} {h : Nat} (hk : hash k = some h)
    (hp : (findNode (chainAt t h) k).isSome = false) : insertOOM t k v = some t := by
  simp [insertOOM, hk, insertAtOOM, hp]

/-- seen through the map: a failed allocation changes the map only by overwriting a key that is present -/
theorem abs_insertOOM {t t' : Table} (wf : WF t) {k v : Ptr} (hi : insertOOM t k v = some t') (k' : Ptr)
    (hk' : (hash k').isSome) :
    abs t' k' = if k' = k ∧ (abs t k).isSome then some v else abs t k' := by
  obtain ⟨h, hk⟩ := Option.isSome_iff_exists.mp (hash_no_ub k)
  have hl := lookup_eq_abs t k h hk
  by_cases hp : (findNode (chainAt t h) k).isSome
  · rw [insertOOM_present hk hp] at hi
    rw [abs_insert wf hi k' hk']
    have : (abs t k).isSome := by
      have : lookup t k = some (findNode (chainAt t h) k) := by simp [lookup, hk]
      rw [this] at hl; simp at hl; rw [← hl]; exact hp
    by_cases e : k' = k <;> simp [e, this]
  · have hp' : (findNode (chainAt t h) k).isSome = false := by simpa using hp
    rw [insertOOM_absent hk hp'] at hi
    have e : t' = t := by simpa using hi.symm
    have : (abs t k).isSome = false := by
      have : lookup t k = some (findNode (chainAt t h) k) := by simp [lookup, hk]
      rw [this] at hl; simp at hl; rw [← hl]; exact hp'
    subst e
    simp [this]

/-- well-formedness survives the failed insert -/
theorem wf_insertOOM {t t' : Table} (wf : WF t) {k v : Ptr} (hi : insertOOM t k v = some t') : WF t' := by
  obtain ⟨h, hk⟩ := Option.isSome_iff_exists.mp (hash_no_ub k)
  by_cases hp : (findNode (chainAt t h) k).isSome
  · rw [insertOOM_present hk hp] at hi
    have : t' = insertAt t h k v := by simpa [insert, hk] using hi.symm
    rw [this]; exact wf_insertAt wf hk
  · have hp' : (findNode (chainAt t h) k).isSome = false := by simpa using hp
    rw [insertOOM_absent hk hp'] at hi
    have e : t' = t := by simpa using hi.symm
    rw [e]; exact wf

/-- **Main refinement theorem**: every operation sequence on the empty table is UB-free, and
    gives exactly the outputs of the reference map, for all keys/values. -/
theorem run_refines (ops : List Op) (t : Table) (m : Spec) (wf : WF t) (hm : ∀ k, abs t k = m k) :
    ∃ t' outs, run t ops = some (t', outs) ∧ WF t' ∧ (specRun m ops).2 = outs ∧
      ∀ k, abs t' k = (specRun m ops).1 k := by
  induction ops generalizing t m with
  | nil => exact ⟨t, [], rfl, wf, rfl, hm⟩
  | cons op ops ih =>
    cases op with
    | ins k v =>
      obtain ⟨h, hk⟩ := Option.isSome_iff_exists.mp (hash_no_ub k)
      have hi : insert t k v = some (insertAt t h k v) := by simp [insert, hk]
      have wf' := wf_insertAt wf (v := v) hk
      have hm' : ∀ k', abs (insertAt t h k v) k' = (specStep m (.ins k v)).1 k' := by
        intro k'
        rw [abs_insert wf hi k' (hash_no_ub k')]
        simp [specStep, hm]
      obtain ⟨t', outs, hr, hw, ho, ha⟩ := ih _ _ wf' hm'
      exact ⟨t', none :: outs, by simp [run, step, hi, hr], hw, by simpa [specRun, specStep] using ho, by simpa [specRun] using ha⟩
    | rem k =>
      obtain ⟨h, hk⟩ := Option.isSome_iff_exists.mp (hash_no_ub k)
      have hi : remove t k = some (removeAt t h k) := by simp [remove, hk]
      have wf' := wf_removeAt wf hk
      have hm' : ∀ k', abs (removeAt t h k) k' = (specStep m (.rem k)).1 k' := by
        intro k'
        rw [abs_remove wf hi k' (hash_no_ub k')]
        simp [specStep, hm]
      obtain ⟨t', outs, hr, hw, ho, ha⟩ := ih _ _ wf' hm'
      exact ⟨t', none :: outs, by simp [run, step, hi, hr], hw, by simpa [specRun, specStep] using ho, by simpa [specRun] using ha⟩
    | get k =>
      obtain ⟨h, hk⟩ := Option.isSome_iff_exists.mp (hash_no_ub k)
      have hl := lookup_eq_abs t k h hk
      obtain ⟨t', outs, hr, hw, ho, ha⟩ := ih t m wf hm
      refine ⟨t', some (abs t k) :: outs, by simp [run, step, hl, hr], hw, ?_, by simpa [specRun, specStep] using ha⟩
      simp [specRun, specStep, ho, hm]

theorem run_refines_empty (ops : List Op) :
    ∃ t' outs, run empty ops = some (t', outs) ∧ WF t' ∧ (specRun (fun _ => none) ops).2 = outs := by
  obtain ⟨t', outs, h1, h2, h3, _⟩ := run_refines ops empty (fun _ => none) wf_empty abs_empty
  exact ⟨t', outs, h1, h2, h3⟩

/-- every bucket index is inside the table -/
theorem bucket_in_range (k : Ptr) (h : Nat) (hk : hash k = some h) : h < hashTableSize := hash_lt hk

/-! ## PList = sequence operations -/

theorem lRemove_eq_erase (l : PList) (d : Ptr) : lRemove l d = l.erase d := by
  induction l with
  | nil => rfl
  | cons x xs ih =>
    by_cases h : x = d
    · simp [lRemove, h]
    · simp [lRemove, h, List.erase_cons, ih]

theorem lRevLoop_eq (p c : PList) : lRevLoop p c = c.reverse ++ p := by
  induction c generalizing p with
  | nil => rfl
  | cons x xs ih => simp [lRevLoop, ih]

theorem lReverse_eq (l : PList) : lReverse l = l.reverse := by
  cases l with
  | nil => rfl
  | cons x xs => simp [lReverse, lRevLoop_eq]

theorem lLast_eq (l : PList) : lLast l = l.getLast? := by
  induction l with
  | nil => rfl
  | cons x xs ih =>
    cases xs with
    | nil => rfl
    | cons y ys => simp only [lLast, ih, List.getLast?_cons_cons]

/-- `p_list_foreach` hands every element to the callback, once, in list order -/
theorem lForeach_eq (l : PList) : lForeach l = l := by
  induction l with
  | nil => rfl
  | cons x xs ih => simp [lForeach, ih]

theorem lLength_eq (l : PList) : lLength l = l.length := by
  induction l with
  | nil => rfl
  | cons x xs ih =>
    cases xs with
    | nil => rfl
    | cons y ys => simp only [lLength, ih, List.length_cons]

/-! ## creation (`p_hash_table_new`) with scripted allocation results -/

/-- a creation whose handle or bucket-array allocation fails gives NULL and keeps no block (the handle is given back) -/
theorem newTable_failure_clean (handleOk arrayOk : Bool) (h : (handleOk && arrayOk) = false) :
    newTable handleOk arrayOk = (none, 0) := by
  cases handleOk <;> cases arrayOk <;> simp_all [newTable]

/-- a creation whose two allocations succeed gives the empty, well-formed table in which no key is found -/
theorem newTable_ok : ∃ t, newTable true true = (some t, 2) ∧ WF t ∧ ∀ k, abs t k = none :=
  ⟨empty, rfl, wf_empty, abs_empty⟩

/-- the source fact the translator pins (`tools/extract.py`, refusing any other text): every function of phashtable.c and
    plist.c is the text this model was written from, and neither file has file-scope state -/
theorem container_source_as_modelled : Generated.containerShapesAsModelled = true := by decide

/-! ## non-vacuity -/
example : WF empty := wf_empty
example : (run empty [.ins 0 5, .ins 0xFFFFFFFFFFFFFFFF 6, .ins 0x7FFFFFFF 7, .get 0x7FFFFFFF, .rem 0, .get 0]).isSome := by
  decide

/-! non-vacuity of the allocation-failure and compare-function statements: a new key under a failed allocation leaves the
    table alone, a present key is overwritten, and a (non-symmetric) compare function selects by the stored value -/
example : (insert empty 5 1).bind (fun t => insertOOM t 106 2) = insert empty 5 1 := by decide
example : (insert empty 5 1).bind (fun t => insertOOM t 5 2) = insert empty 5 2 := by decide
example : ((insert empty 7 0x109).bind (fun t => insert t 9 0x300)).map (fun t => lookupByValueF t (fun x => x >>> 8 == 1)) = some [7] := by decide
example : lForeach [1, 2, 3] = [1, 2, 3] := by decide
/-! non-vacuity of the creation statements: the second allocation failing, and both succeeding -/
example : newTable true false = (none, 0) := newTable_failure_clean true false rfl
example : (newTable true true).1.isSome = true := by decide

end PV.HT

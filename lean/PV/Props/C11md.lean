import PV.Model.Hash.Dispatch
import PV.Spec.Hash
namespace PV.Hash

/-- `hash_len` of the dispatcher is the standard digest length of each type -/
theorem hashLen_standard :
    HashType.md5.hashLen = 16 ∧ HashType.sha1.hashLen = 20 ∧ HashType.sha224.hashLen = 28 ∧
    HashType.sha256.hashLen = 32 ∧ HashType.sha384.hashLen = 48 ∧ HashType.sha512.hashLen = 64 := by decide

end PV.Hash

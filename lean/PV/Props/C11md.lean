import PV.Model.Hash.Dispatch
import PV.Spec.Hash
import PV.Lemmas.Hash.History
/-!
# C11 (Merkle–Damgård group) — MD5, SHA-1, SHA-2-224/256/384/512

*For each algorithm the digest of a `PCryptoHash` equals the standard digest of the concatenation
of all bytes passed to `update` since creation or the last reset, for every way of splitting that
input into `update` calls; the hex string is the lower-case encoding of `hash_len` digest bytes;
reading is repeatable; updates after a read are ignored until reset.*

Model: `PV.Model.Hash.*` — transliteration of `pcryptohash-{md5,sha1,sha2-256,sha2-512}.c` and
`pcryptohash.c` **with finding F9 repaired** (the top-up test uses the full `psize`, the high half of
`len` is added to `len_high`); the translator refuses any other shape of `update`.
Spec: `PV.Spec.Hash` — `H msg = out (foldl compress iv (blocks (pad msg)))` from RFC 1321 / FIPS 180-4.
The compression functions are shared between model and spec (their conformance to the standards is
tested against published vectors and `hashlib`, not proved).

Everything below is full strength: no bound on the number or the sizes of the chunks other than
what the C types and the standards themselves impose — a chunk length is a `psize` (`< 2^64`, and
for the 32-bit algorithms that follows from the total), the message is shorter than `2^61` bytes
(`2^125` for SHA-384/512) so that its bit length fits the length field.  In particular single
updates of `2^32` bytes or more are covered (the case that fails on the unrepaired code, see
`unrepaired_counter_loses_high_half`).
-/
namespace PV.Hash
open Spec

/-! ## (a) every chunking gives the one-shot digest -/

/-- the digest bytes `get_digest` / `get_string` would read after the given `update` calls -/
def streamed (t : HashType) (chunks : List Src) : List UInt8 :=
  (t.alg.digest (t.alg.finish (chunks.foldl t.alg.update t.alg.init))).take t.hashLen

theorem chunking (t : HashType) (chunks : List Src) (hc : ∀ d ∈ chunks, d.size < 2 ^ 64)
    (hb : (Src.concat chunks).size < t.maxBytes) : streamed t chunks = H t (Src.concat chunks) := by
  have := chunking_generic (lawsOf t) chunks hc (by rw [lawsOf_M]; omega)
  rw [lawsOf_spec, lawsOf_hashLen] at this
  exact this

/-- for the algorithms with 32-bit counters the `psize` bound follows from the total -/
theorem chunking32 (t : HashType) (ht : t.maxBytes = 2 ^ 61) (chunks : List Src)
    (hb : (Src.concat chunks).size < 2 ^ 61) : streamed t chunks = H t (Src.concat chunks) :=
  chunking t chunks (fun d hd => by have := size_le_concat chunks d hd; omega) (by omega)

theorem chunking_md5 (chunks : List Src) (hb : (Src.concat chunks).size < 2 ^ 61) :
    streamed .md5 chunks = Spec.md5.H (Src.concat chunks) := chunking32 .md5 rfl chunks hb
theorem chunking_sha1 (chunks : List Src) (hb : (Src.concat chunks).size < 2 ^ 61) :
    streamed .sha1 chunks = Spec.sha1.H (Src.concat chunks) := chunking32 .sha1 rfl chunks hb
theorem chunking_sha224 (chunks : List Src) (hb : (Src.concat chunks).size < 2 ^ 61) :
    streamed .sha224 chunks = Spec.sha224.H (Src.concat chunks) := chunking32 .sha224 rfl chunks hb
theorem chunking_sha256 (chunks : List Src) (hb : (Src.concat chunks).size < 2 ^ 61) :
    streamed .sha256 chunks = Spec.sha256.H (Src.concat chunks) := chunking32 .sha256 rfl chunks hb
theorem chunking_sha384 (chunks : List Src) (hc : ∀ d ∈ chunks, d.size < 2 ^ 64)
    (hb : (Src.concat chunks).size < 2 ^ 125) :
    streamed .sha384 chunks = Spec.sha384.H (Src.concat chunks) := chunking .sha384 chunks hc hb
theorem chunking_sha512 (chunks : List Src) (hc : ∀ d ∈ chunks, d.size < 2 ^ 64)
    (hb : (Src.concat chunks).size < 2 ^ 125) :
    streamed .sha512 chunks = Spec.sha512.H (Src.concat chunks) := chunking .sha512 chunks hc hb

/-! ## (b) every sequence of update / reset / get_string / get_digest

`run` executes the dispatcher model, `View.run` is the statement of the property: the view keeps
the bytes updated since creation / the last reset before the first read (`msg`) and whether the
digest was read; `get_string` answers `hexOf (H msg)`, `get_digest` answers `H msg` (or length 0
when the caller's buffer is too small, which is not a read); updates after a read do not change
`msg`; reset empties it.  `Admissible`: update lengths are `psize`s and `msg` stays shorter than
`maxBytes`. -/

theorem history (t : HashType) (ops : List Op) (ha : Admissible t { msg := ByteArray.empty, read := false } ops) :
    run (PHash.new t) ops = View.run t { msg := ByteArray.empty, read := false } ops :=
  run_rel ops _ _ (rel_new t) ha

/-- reading is repeatable: a second `get_string` returns the same string and leaves the state as it is -/
theorem read_repeatable {t : HashType} (h : PHash t) :
    (h.getString.1).getString = (h.getString.1, h.getString.2) ∧
    (h.getString.1).getDigest t.hashLen = (h.getString.1, some (h.getString.1).digestBytes) := by
  have hc : h.close.closed = true := by unfold PHash.close; split <;> simp_all
  have hcc : h.close.close = h.close := by
    show (if h.close.closed = true then h.close else _) = _
    rw [if_pos hc]
  simp [PHash.getString, PHash.getDigest, hcc]

/-- an update after a read is ignored -/
theorem update_after_read_ignored {t : HashType} (h : PHash t) (d : Src) :
    (h.getString.1).update d = h.getString.1 := by
  have hc : h.close.closed = true := by unfold PHash.close; split <;> simp_all
  simp [PHash.getString, PHash.update, hc]

/-- … until `reset`, which gives a hash indistinguishable from a new one -/
theorem reset_is_new {t : HashType} (h : PHash t) : h.reset = PHash.new t := rfl

/-- the string is lower-case hexadecimal … -/
theorem hex_lower (d : List UInt8) : ∀ c ∈ (hexOf d).toList, c ∈ "0123456789abcdef".toList := hexOf_lower d

/-- … of twice the digest length, which is the standard length of the type -/
theorem hex_length (t : HashType) (msg : ByteArray) : (hexOf (H t msg)).length = 2 * t.hashLen := by
  rw [hexOf_length, H_length]

theorem digest_length (t : HashType) (msg : ByteArray) : (H t msg).length = t.hashLen := H_length t msg

/-- `hash_len` of the dispatcher is the standard digest length of each type -/
theorem hashLen_standard :
    HashType.md5.hashLen = 16 ∧ HashType.sha1.hashLen = 20 ∧ HashType.sha224.hashLen = 28 ∧
    HashType.sha256.hashLen = 32 ∧ HashType.sha384.hashLen = 48 ∧ HashType.sha512.hashLen = 64 := by decide

/-! ## (d) the rest of the entry points: which integers `p_crypto_hash_new` accepts, `get_type`, NULL arguments

The enumerator values, the range test `MD5 ≤ type ≤ GOST`, one `switch` case per enumerator, `get_type`, `free`,
the constructors and the absence of mutable `static` objects in the seven files are translator facts
(`hash_api_facts`): several live objects cannot influence each other because the code has no state outside them —
in the model an object *is* its `PHash` value. -/

/-- every type of this family is accepted by the range test and selected by its own enumerator value -/
theorem new_by_code (t : HashType) : typeAccepted t.code = true ∧ HashType.ofCode t.code = some t := by
  cases t <;> decide

/-- any integer outside the enumeration is refused (`p_crypto_hash_new` returns NULL before the switch) -/
theorem new_refuses_outside (c : Int) (h : c < 0 ∨ 10 < c) : typeAccepted c = false := by
  have h1 : PV.Generated.HashMD.typeCodeMin = 0 := rfl
  have h2 : PV.Generated.HashMD.typeCodeMax = 10 := rfl
  unfold typeAccepted
  rw [h1, h2]
  rcases h with h | h
  · have : ¬ (0 ≤ c) := by omega
    simp [this]
  · have : ¬ (c ≤ 10) := by omega
    simp [this]

/-- an accepted integer that selects a type of this family selects exactly one -/
theorem ofCode_code (c : Int) (t : HashType) (h : HashType.ofCode c = some t) : t.code = c := by
  unfold HashType.ofCode at h
  have := List.find?_some h
  simpa using this

/-- `get_type` answers the type given to `new`, whatever happened to the object since -/
theorem get_type_constant {t : HashType} (h : PHash t) (ops : List Op) :
    (ops.foldl (fun h op => (step h op).1) h).getType = t.code ∧ h.getType = t.code := ⟨rfl, rfl⟩

/-- NULL data, a NULL output buffer and a NULL length pointer leave the object as it was: none of them is a
    read, even when the capacity would have sufficed -/
theorem null_arguments_ignored {t : HashType} (h : PHash t) (n cap : Nat) :
    h.updateNull n = h ∧ (h.getDigestNullBuf cap) = (h, 0) ∧ h.getDigestNullLen = h := ⟨rfl, rfl, rfl⟩

/-! ## (c) finding F9: what the unrepaired counter did

Before the repair the three files with 32-bit counters computed

```c
ctx->len_low += (puint32) len;
if (ctx->len_low < (puint32) len) ++ctx->len_high;
if (left && (puint32) len >= to_fill) { … }
```

so a single `update` of `2^32` bytes or more lost the high half of its length (and chose the
top-up branch by the truncated length).  For that code the statement above is false without the
extra hypothesis "every chunk is shorter than `2^32` bytes"; on the counter sub-model: -/

/-- the counter statements of the unrepaired `update` -/
def kAdd32_unrepaired (k : UInt32 × UInt32) (len : Nat) : UInt32 × UInt32 :=
  let l : UInt32 := UInt32.ofNat len
  let lo := k.2 + l
  (if lo < l then k.1 + 1 else k.1, lo)

/-- one update of `2^32 + 5` bytes counted 5 bytes; the same bytes in two updates of `2^32 - 1`
    and 6 bytes counted all of them -/
theorem unrepaired_counter_loses_high_half :
    kAdd32_unrepaired (0, 0) (2 ^ 32 + 5) = (0, 5) ∧
    kAdd32_unrepaired (kAdd32_unrepaired (0, 0) (2 ^ 32 - 1)) 6 = (1, 5) := by decide

/-- the repaired counter agrees on the two splittings (and with the byte count) -/
theorem repaired_counter_witness :
    kAdd32 (0, 0) (2 ^ 32 + 5) = (1, 5) ∧ kAdd32 (kAdd32 (0, 0) (2 ^ 32 - 1)) 6 = (1, 5) := by decide

/-! ## non-vacuity -/

/-- an admissible history that exercises every clause: two updates, a failed and a successful
    read, an ignored update, reset -/
example : Admissible .sha256 { msg := ByteArray.empty, read := false }
    [.update [1, 2, 3].toByteArray, .update ByteArray.empty, .getDigest 5, .getDigest 32, .getString,
     .update [4].toByteArray, .getString, .reset, .getString] := by
  simp [Admissible, View.step, HashType.maxBytes, HashType.hashLen, Src.size, Src.toBytes, zeroBytes,
    PV.Generated.HashMD.hashLen_sha2_256, ByteArray.size_append]
  decide

example : typeAccepted 5 = true ∧ typeAccepted 11 = false ∧ typeAccepted (-1) = false ∧ HashType.ofCode 3 = some .sha256 := by decide

example : (Src.concat [([1, 2, 3].toByteArray : Src), { bytes := ByteArray.empty, zeros := 2 }]).size = 5 := by
  simp [Src.concat, Src.toBytes, zeroBytes, ByteArray.size]

end PV.Hash

import PV.Lemmas.SockAddr
/-! # C17 — socket address conversions

"For every IPv4 and IPv6 address, port, flow info and scope id, converting a PSocketAddress to the
native structure and back, or to text and back, reproduces the same address, and the text form,
family, native size and the any/loopback classification agree with the platform's
inet_pton/inet_ntop view of that address.  Creation from text succeeds exactly for the numeric
address strings the platform accepts, and conversions given a buffer that is too small fail without
reading or writing beyond it."

The theorems are about `PV.SockAddr` (the transliteration of `psocketaddress.c`, over the facts in
`PV.Generated.SA` that `tools/extract.py` regenerates from the working tree) and relate it to
`PV.SockAddr.Spec` (explicit byte layout, byte-wise classification).  Buffers are byte lists of
exactly the caller's extent; an access outside is the result `Res.fault`.  `NULL` pointer arguments: the
`…P` functions of the model (`Option` = pointer that may be NULL) and `null_arguments`, `nonnull_arguments`,
`to_native_false_writes_nothing`.

F7 (DESIGN §5): before the repair `p_socket_address_new_from_native` only rejected `len == 0` before
reading the two-byte `sa_family` (`SA.fromNativeMinLen = 1`); with a one-byte buffer that read is
`rdU16 [b] 0 = fault` (see the example after `no_oob_read`).  The model follows the source through
`SA.fromNativeMinLen`; `source_facts` pins the repaired value, so on an unrepaired tree this file no
longer checks and the campaign reports the concrete one-byte input. -/
namespace PV.Props.C17
open PV.SockAddr PV.Generated

/-- the facts of the current source / platform that the proofs below are about -/
theorem source_facts :
    SA.fromNativeMinLen = SA.saFamilyOff + SA.sizeofSaFamily ∧ SA.fromNativeMinLen = 2 ∧
    SA.sizeofSockaddrIn = 16 ∧ SA.sizeofSockaddrIn6 = 28 ∧ SA.afInet = 2 ∧ SA.afInet6 = 10 ∧
    SA.sinPortOff = 2 ∧ SA.sinAddrOff = 4 ∧ SA.sin6FlowOff = 4 ∧ SA.sin6AddrOff = 8 ∧ SA.sin6ScopeOff = 24 ∧
    SA.hasFlowinfo = true ∧ SA.hasScopeId = true ∧ SA.hasGetaddrinfo = true ∧ SA.littleEndian = true ∧
    SA.loopMask = 0xff000000 ∧ SA.loopValue = 0x7f000000 ∧ SA.inaddrAny = 0 := by decide

/-! ## the model is the layout -/

/-- both conversions, for every buffer and every stated length within it, are the explicit layout of
    `Spec` (16-byte `sockaddr_in`, 28-byte `sockaddr_in6`; family host order, port network order) -/
theorem model_is_layout :
    (∀ (bytes : Buf) (len : Nat), len ≤ bytes.length → newFromNative bytes len = .ok (Spec.decode bytes len)) ∧
    (∀ (a : Addr) (dest : Buf) (n : Nat), nativeSize a ≤ n → n ≤ dest.length →
      toNative a dest n = .ok (true, Spec.encode a ++ dest.drop (nativeSize a))) :=
  ⟨fun bytes len h => newFromNative_eq_decode bytes len h rfl, toNative_eq_encode⟩

example : newFromNative [2, 0, 0, 80, 127, 0, 0, 1, 0, 0, 0, 0, 0, 0, 0, 0] 16 = .ok (some (.v4 #v[127, 0, 0, 1] 80)) := by
  decide

/-! ## native round trips -/

/-- to native and back gives the same object — address, port, flow info and scope id — for every
    address and every destination buffer that is large enough -/
theorem native_roundtrip (a : Addr) (dest : Buf) (n : Nat) (h1 : nativeSize a ≤ n) (h2 : n ≤ dest.length) :
    ∃ d, toNative a dest n = .ok (true, d) ∧ d.length = dest.length ∧ newFromNative d n = .ok (some a) := by
  have hlen : (Spec.encode a ++ dest.drop (nativeSize a)).length = dest.length := by
    simp [encode_length]; omega
  refine ⟨_, toNative_eq_encode a dest n h1 h2, hlen, ?_⟩
  rw [newFromNative_eq_decode _ _ (by omega) rfl, decode_encode a _ n h1]

example : ∃ d, toNative (.v6 SA.in6addrLoopback 443 7 3) (List.replicate 30 0xA5) 30 = .ok (true, d) ∧
    newFromNative d 30 = .ok (some (.v6 SA.in6addrLoopback 443 7 3)) := by
  obtain ⟨d, h, _, h'⟩ := native_roundtrip (.v6 SA.in6addrLoopback 443 7 3) (List.replicate 30 0xA5) 30 (by decide) (by decide)
  exact ⟨d, h, h'⟩

/-- from native and back reproduces the bytes of the structure: all 28 for IPv6 (family, port, flow
    info, address, scope id), family/port/address for IPv4 with `sin_zero` cleared; nothing behind the
    structure is written -/
theorem native_roundtrip_bytes (bytes : Buf) (len : Nat) (a : Addr) (hl : len ≤ bytes.length)
    (h : newFromNative bytes len = .ok (some a)) (dest : Buf) (n : Nat) (h1 : nativeSize a ≤ n) (h2 : n ≤ dest.length) :
    ∃ d, toNative a dest n = .ok (true, d) ∧ d.drop (nativeSize a) = dest.drop (nativeSize a) ∧
      ((∃ x p, a = .v4 x p ∧ d.take 8 = bytes.take 8 ∧ (d.drop 8).take 8 = [0, 0, 0, 0, 0, 0, 0, 0]) ∨
       (∃ x p f s, a = .v6 x p f s ∧ d.take 28 = bytes.take 28)) := by
  rw [newFromNative_eq_decode _ _ hl rfl] at h
  injection h with h
  refine ⟨_, toNative_eq_encode a dest n h1 h2, ?_, ?_⟩
  · rw [List.drop_append_of_le_length (by simp [encode_length]), ← encode_length a]; simp
  · rcases encode_of_decode bytes len a h with ⟨x, p, rfl, he⟩ | ⟨x, p, f, s, rfl, he⟩
    · refine Or.inl ⟨x, p, rfl, ?_, ?_⟩
      · rw [← he]; simp [Spec.encode, toList4 x]
      · simp [Spec.encode, toList4 x]
    · refine Or.inr ⟨x, p, f, s, rfl, ?_⟩
      rw [← he, List.take_append_of_le_length (by simp [encode_length, nativeSize, SA.sizeofSockaddrIn6])]
      exact List.take_of_length_le (by simp [encode_length, nativeSize, SA.sizeofSockaddrIn6])

-- a 30-byte IPv6 buffer: all 28 structure bytes come back, the two bytes behind them stay as they were
example : ∃ a d, newFromNative ([10, 0, 1, 187, 4, 3, 2, 1, 0xfe, 0x80, 0, 0, 0, 0, 0, 0, 0, 0, 0, 0, 0, 0, 0, 1, 9, 0, 0, 0] ++ [7, 7]) 30 = .ok (some a) ∧
    toNative a (List.replicate 30 0xA5) 30 = .ok (true, d) ∧
    d = [10, 0, 1, 187, 4, 3, 2, 1, 0xfe, 0x80, 0, 0, 0, 0, 0, 0, 0, 0, 0, 0, 0, 0, 0, 1, 9, 0, 0, 0] ++ [0xA5, 0xA5] :=
  ⟨.v6 #v[0xfe, 0x80, 0, 0, 0, 0, 0, 0, 0, 0, 0, 0, 0, 0, 0, 1] 443 16909060 9,
   [10, 0, 1, 187, 4, 3, 2, 1, 0xfe, 0x80, 0, 0, 0, 0, 0, 0, 0, 0, 0, 0, 0, 0, 0, 1, 9, 0, 0, 0] ++ [0xA5, 0xA5],
   by decide, by decide, rfl⟩

/-! ## port byte order, size, family -/

/-- the port is stored in network byte order at bytes 2..3, whatever the host order of the other fields -/
theorem port_byte_order :
    (∀ (a : Addr) (dest : Buf) (n : Nat), nativeSize a ≤ n → n ≤ dest.length →
      ∃ d, toNative a dest n = .ok (true, d) ∧
        d[2]? = some (UInt8.ofNat ((port a).toNat / 256)) ∧ d[3]? = some (UInt8.ofNat ((port a).toNat % 256))) ∧
    (∀ (bytes : Buf) (len : Nat) (a : Addr), len ≤ bytes.length → newFromNative bytes len = .ok (some a) →
      ∃ ph pl, bytes[2]? = some ph ∧ bytes[3]? = some pl ∧ (port a).toNat = ph.toNat * 256 + pl.toNat) := by
  constructor
  · intro a dest n h1 h2
    refine ⟨_, toNative_eq_encode a dest n h1 h2, ?_⟩
    cases a <;> simp [Spec.encode, Spec.hi, Spec.lo, port]
  · intro bytes len a hl h
    rw [newFromNative_eq_decode _ _ hl rfl] at h
    injection h with h
    unfold Spec.decode at h
    split at h
    · split at h
      · injection h with h
        subst h
        rename_i ph pl _ _ _ _ _ _ _ _ _ _ _ _ _ _
        refine ⟨ph, pl, rfl, rfl, ?_⟩
        have := u8_lt ph
        have := u8_lt pl
        simp only [port, Spec.ofBe16, UInt16.toNat_ofNat']
        omega
      · exact absurd h (by simp)
    · split at h
      · injection h with h
        subst h
        rename_i ph pl _ _ _ _ _ _ _ _ _ _ _ _ _ _ _ _ _ _ _ _ _ _ _ _ _ _
        refine ⟨ph, pl, rfl, rfl, ?_⟩
        have := u8_lt ph
        have := u8_lt pl
        simp only [port, Spec.ofBe16, UInt16.toNat_ofNat']
        omega
      · exact absurd h (by simp)
    · exact absurd h (by simp)

example : ∃ d, toNative (.v4 #v[1, 2, 3, 4] 0x1234) (List.replicate 16 0) 16 = .ok (true, d) ∧ d[2]? = some 0x12 ∧ d[3]? = some 0x34 := by
  exact ⟨_, rfl, by decide, by decide⟩

/-- native size and family go together: 16 bytes / AF_INET (2) for IPv4, 28 bytes / AF_INET6 (10) for IPv6;
    an object made from a native structure has the family found in its first two bytes and never needs
    more bytes than were supplied -/
theorem size_family :
    (∀ x p, nativeSize (.v4 x p) = 16 ∧ family (.v4 x p) = 2) ∧
    (∀ x p f s, nativeSize (.v6 x p f s) = 28 ∧ family (.v6 x p f s) = 10) ∧
    (∀ (bytes : Buf) (len : Nat) (a : Addr), len ≤ bytes.length → newFromNative bytes len = .ok (some a) →
      bytes.take 2 = [UInt8.ofNat (family a), 0] ∧ nativeSize a ≤ len) := by
  refine ⟨fun _ _ => ⟨rfl, rfl⟩, fun _ _ _ _ => ⟨rfl, rfl⟩, ?_⟩
  intro bytes len a hl h
  rw [newFromNative_eq_decode _ _ hl rfl] at h
  injection h with h
  unfold Spec.decode at h
  split at h
  · split at h
    · injection h with h
      subst h
      exact ⟨rfl, by assumption⟩
    · exact absurd h (by simp)
  · split at h
    · injection h with h
      subst h
      exact ⟨rfl, by assumption⟩
    · exact absurd h (by simp)
  · exact absurd h (by simp)

example : nativeSize (.v6 SA.in6addrAny 0 0 0) = 28 ∧ family (.v6 SA.in6addrAny 0 0 0) = 10 := ⟨rfl, rfl⟩

/-! ## classification -/

/-- "any" exactly when every address byte is zero; IPv4 loopback exactly when the first octet is 127
    (the C mask `0xff000000` against `0x7f000000`, i.e. all of 127/8); IPv6 loopback exactly `::1` -/
theorem classification :
    (∀ a, isAny a = true ↔ ∀ b ∈ Spec.addrBytes a, b = 0) ∧
    (∀ x p, isLoopback (.v4 x p) = true ↔ x[0] = 127) ∧
    (∀ x p f s, isLoopback (.v6 x p f s) = true ↔ x = #v[0, 0, 0, 0, 0, 0, 0, 0, 0, 0, 0, 0, 0, 0, 0, 1]) ∧
    (∀ a, isAny a = Spec.isAny a ∧ isLoopback a = Spec.isLoopback a) := by
  refine ⟨?_, ?_, ?_, fun a => ⟨isAny_eq_spec a, isLoopback_eq_spec a⟩⟩
  · intro a
    rw [isAny_eq_spec]
    simp [Spec.isAny]
  · intro x p
    rw [isLoopback_eq_spec]
    simp [Spec.isLoopback]
  · intro x p f s
    rw [isLoopback_eq_spec, ← Vector.toList_inj]
    simp [Spec.isLoopback]

example : isLoopback (.v4 #v[127, 255, 0, 9] 0) = true ∧ isLoopback (.v4 #v[128, 0, 0, 1] 0) = false ∧
    isAny (.v6 SA.in6addrAny 1 2 3) = true ∧ isLoopback (.v6 SA.in6addrLoopback 1 2 3) = true := by decide

/-- the constructors: `new_any` is "any", `new_loopback` is "loopback".  (Today the IPv4 loopback constant in
    the source is 127.0.0.0 — `SA.newLoopback4` — which is inside 127/8 and classified loopback by library and
    platform alike; not a finding: the property promises the classification, not 127.0.0.1.  The statement
    holds for whatever constant inside 127/8 the translator finds.) -/
theorem any_loopback_constructors (p : UInt16) :
    (∀ a, newAny 2 p = some a ∨ newAny 10 p = some a → isAny a = true ∧ port a = p) ∧
    (∀ a, newLoopback 2 p = some a ∨ newLoopback 10 p = some a → isLoopback a = true ∧ isAny a = false ∧ port a = p) ∧
    (∀ f, f ≠ 2 → f ≠ 10 → newAny f p = none ∧ newLoopback f p = none) := by
  have any4 : ∀ q, isAny (.v4 SA.newAny4 q) = true := fun q => by
    rw [isAny_eq_spec]; simp only [Spec.isAny, Spec.addrBytes]; decide
  have any6 : ∀ q, isAny (.v6 SA.in6addrAny q 0 0) = true := fun q => by
    rw [isAny_eq_spec]; simp only [Spec.isAny, Spec.addrBytes]; decide
  have loop4 : ∀ q, isLoopback (.v4 SA.newLoopback4 q) = true ∧ isAny (.v4 SA.newLoopback4 q) = false := fun q => by
    rw [isAny_eq_spec, isLoopback_eq_spec]; simp only [Spec.isAny, Spec.isLoopback, Spec.addrBytes]; decide
  have loop6 : ∀ q, isLoopback (.v6 SA.in6addrLoopback q 0 0) = true ∧ isAny (.v6 SA.in6addrLoopback q 0 0) = false := fun q => by
    rw [isAny_eq_spec, isLoopback_eq_spec]; simp only [Spec.isAny, Spec.isLoopback, Spec.addrBytes]; decide
  refine ⟨?_, ?_, ?_⟩
  · intro a h
    rcases h with h | h <;> (injection h with h; subst h)
    · exact ⟨any4 p, rfl⟩
    · exact ⟨any6 p, rfl⟩
  · intro a h
    rcases h with h | h <;> (injection h with h; subst h)
    · exact ⟨(loop4 p).1, (loop4 p).2, rfl⟩
    · exact ⟨(loop6 p).1, (loop6 p).2, rfl⟩
  · intro f h2 h10
    simp [newAny, newLoopback, SA.afInet, SA.afInet6, h2, h10]

example : (∃ a, newLoopback 2 80 = some a ∧ isLoopback a = true) ∧ newAny 10 0 = some (.v6 SA.in6addrAny 0 0 0) ∧ newAny 0 1 = none :=
  ⟨⟨_, rfl, by decide⟩, by decide, by decide⟩

/-! ## too small / out of bounds -/

/-- a destination that is too small: FALSE and not a byte written; a source that is too small: NULL -/
theorem too_small_fails :
    (∀ (a : Addr) (dest : Buf) (n : Nat), n < nativeSize a → toNative a dest n = .ok (false, dest)) ∧
    (∀ (bytes : Buf) (len : Nat), len ≤ bytes.length → len < 16 → newFromNative bytes len = .ok none) ∧
    (∀ (bytes : Buf) (len : Nat), len ≤ bytes.length → len < 28 → bytes.take 2 = [10, 0] →
      newFromNative bytes len = .ok none) := by
  refine ⟨toNative_small, ?_, ?_⟩
  · intro bytes len hl h
    rw [newFromNative_eq_decode _ _ hl rfl, decode_none_of_lt _ _ h]
  · intro bytes len hl h hf
    rw [newFromNative_eq_decode _ _ hl rfl]
    rcases bytes with _ | ⟨b0, _ | ⟨b1, r⟩⟩
    · simp at hf
    · simp at hf
    · simp at hf
      obtain ⟨rfl, rfl⟩ := hf
      rw [decode_inet6_short _ _ h]

example : toNative (.v4 #v[1, 2, 3, 4] 80) (List.replicate 15 0xA5) 15 = .ok (false, List.replicate 15 0xA5) := by decide
example : newFromNative [10, 0, 0, 80, 0, 0, 0, 0, 0, 0, 0, 0, 0, 0, 0, 0, 0, 0, 0, 0, 0, 0, 0, 1, 0, 0, 0] 27 = .ok none := by decide

/-- `p_socket_address_new_from_native` never reads outside the buffer, for every buffer and every stated
    length up to its size (full strength: with the length guard in front of the `sa_family` read, F7) -/
theorem no_oob_read (bytes : Buf) (len : Nat) (h : len ≤ bytes.length) : newFromNative bytes len ≠ .fault := by
  rw [newFromNative_eq_decode _ _ h rfl]; intro h; cases h

/-- what the unguarded code did with a one-byte buffer: the two-byte family read is out of bounds -/
example : rdU16 [2] SA.saFamilyOff = .fault := by decide
example : newFromNative [2] 1 = .ok none ∧ newFromNative [] 0 = .ok none ∧ newFromNative [10, 0] 2 = .ok none := by decide

/-- `p_socket_address_to_native` never writes (or reads) outside the destination -/
theorem no_oob_write (a : Addr) (dest : Buf) (n : Nat) (h : n ≤ dest.length) : toNative a dest n ≠ .fault := by
  by_cases hs : n < nativeSize a
  · rw [toNative_small a dest n hs]; intro h; cases h
  · rw [toNative_eq_encode a dest n (by omega) h]; intro h; cases h

example : toNative (.v6 SA.in6addrAny 0 0 0) [] 0 ≠ .fault := no_oob_write _ _ _ (Nat.le_refl _)

/-! ## lengths beyond the structure

A caller may state any length that its buffer really has (`sizeof (struct sockaddr_storage)`, a page, 2^31, 2^33, …).
The lengths are `Nat` here: nothing below depends on their size.  These two theorems are what the ops `tonativebig` /
`fromnativebig` of the line protocol rest on: the driver answers for a length of up to 2^33 from the first 64 bytes. -/

/-- `p_socket_address_to_native`: for every stated length from the native size of the address upwards (within the
    destination) the answer is the one for exactly the native size — TRUE, the structure written, everything behind it
    untouched; and cut at any `k` between the two, it is the conversion into the first `k` bytes -/
theorem to_native_length_monotone (a : Addr) (dest : Buf) (k n : Nat) (hk : nativeSize a ≤ k) (hkn : k ≤ n)
    (hn : n ≤ dest.length) :
    toNative a dest n = toNative a dest (nativeSize a) ∧
    ∃ d, toNative a dest n = .ok (true, d) ∧ d = Spec.encode a ++ dest.drop (nativeSize a) ∧ d.length = dest.length ∧
      toNative a (dest.take k) k = .ok (true, d.take k) ∧ d.drop k = dest.drop k := by
  have h0 := toNative_eq_encode a dest n (by omega) hn
  have h1 := toNative_eq_encode a dest (nativeSize a) (Nat.le_refl _) (by omega)
  have h2 := toNative_eq_encode a (dest.take k) k hk (by simp; omega)
  obtain ⟨e1, e2⟩ := encode_append_take_drop (Spec.encode a) dest (nativeSize a) k (encode_length a) hk
  refine ⟨h0.trans h1.symm, _, h0, rfl, ?_, ?_, e2⟩
  · simp [encode_length]; omega
  · rw [h2, e1]

example : ∃ d, toNative (.v4 #v[1, 2, 3, 4] 80) (List.replicate 100 0xA5) 100 = .ok (true, d) ∧
    toNative (.v4 #v[1, 2, 3, 4] 80) (List.replicate 64 0xA5) 64 = .ok (true, d.take 64) ∧ d.drop 64 = List.replicate 36 0xA5 := by
  obtain ⟨_, d, h, _, _, h', h''⟩ := to_native_length_monotone (.v4 #v[1, 2, 3, 4] 80) (List.replicate 100 0xA5) 64 100 (by decide) (by decide) (by decide)
  exact ⟨d, h, by simpa using h', by simpa using h''⟩

/-- `p_socket_address_new_from_native`: for every stated length from the structure size of the family upwards (within
    the buffer) the answer is the one for exactly that size — 16 for AF_INET, 28 for AF_INET6 —, and from 28 upwards it
    is the answer for the first `k` bytes alone, `28 ≤ k ≤ len` -/
theorem from_native_length_monotone (bytes : Buf) (len : Nat) (hl : len ≤ bytes.length) :
    (bytes.take 2 = [2, 0] → 16 ≤ len → newFromNative bytes len = newFromNative bytes 16) ∧
    (bytes.take 2 = [10, 0] → 28 ≤ len → newFromNative bytes len = newFromNative bytes 28) ∧
    (∀ k, 28 ≤ k → k ≤ len → newFromNative bytes len = newFromNative (bytes.take k) k) := by
  refine ⟨?_, ?_, ?_⟩
  · intro hf h16
    rw [newFromNative_eq_decode _ _ hl rfl, newFromNative_eq_decode _ _ (by omega) rfl]
    rcases bytes with _ | ⟨b0, _ | ⟨b1, r⟩⟩
    · simp at hf
    · simp at hf
    · simp at hf
      obtain ⟨rfl, rfl⟩ := hf
      rw [decode_inet_len _ _ h16]
  · intro hf h28
    rw [newFromNative_eq_decode _ _ hl rfl, newFromNative_eq_decode _ _ (by omega) rfl]
    rcases bytes with _ | ⟨b0, _ | ⟨b1, r⟩⟩
    · simp at hf
    · simp at hf
    · simp at hf
      obtain ⟨rfl, rfl⟩ := hf
      rw [decode_inet6_len _ _ h28]
  · intro k hk hkl
    rw [newFromNative_eq_decode _ _ hl rfl, newFromNative_eq_decode _ _ (by simp; omega) rfl]
    rw [decode_congr bytes (bytes.take k) len k (by rw [List.take_take]; congr 1; omega) (by omega) (by simp; omega) (by omega) hk]

-- an AF_INET structure in a 100-byte buffer: the same object for the stated lengths 16, 64 and 100
example : newFromNative ([2, 0, 0, 80, 127, 0, 0, 1] ++ List.replicate 92 0) 100 = .ok (some (.v4 #v[127, 0, 0, 1] 80)) ∧
    newFromNative ([2, 0, 0, 80, 127, 0, 0, 1] ++ List.replicate 92 0) 16 = .ok (some (.v4 #v[127, 0, 0, 1] 80)) ∧
    newFromNative ((([2, 0, 0, 80, 127, 0, 0, 1] ++ List.replicate 92 0 : Buf)).take 64) 64 = .ok (some (.v4 #v[127, 0, 0, 1] 80)) := by
  decide

/-! ## `NULL` pointer arguments -/

/-- every entry point handed a `NULL` pointer answers its failure value (NULL / FALSE / 0 / `P_SOCKET_FAMILY_UNKNOWN`);
    `p_socket_address_to_native` with `addr == NULL` or `dest == NULL` leaves the destination as it was, whatever
    the other arguments; the setters do nothing -/
theorem null_arguments (P : Platform) (len : Nat) (port : UInt16) (a : Option Addr) (dest : Option Buf) (x : UInt32) :
    newFromNativeP none len = .ok none ∧ newP P none port = .ok none ∧
    toNativeP none dest len = .ok (false, dest) ∧ toNativeP a none len = .ok (false, none) ∧
    nativeSizeP none = 0 ∧ familyP none = 0 ∧ getAddressP P none = none ∧ portP none = 0 ∧
    flowInfoP none = 0 ∧ scopeIdP none = 0 ∧ setFlowInfoP none x = none ∧ setScopeIdP none x = none ∧
    isAnyP none = false ∧ isLoopbackP none = false := by
  refine ⟨rfl, rfl, ?_, ?_, rfl, rfl, rfl, rfl, rfl, rfl, rfl, rfl, rfl, rfl⟩
  · cases dest <;> rfl
  · cases a <;> rfl

/-- on non-`NULL` arguments the entry points are the functions the theorems above are about -/
theorem nonnull_arguments (P : Platform) (a : Addr) (b : Buf) (s : List UInt8) (n : Nat) (port : UInt16) :
    newFromNativeP (some b) n = newFromNative b n ∧ newP P (some s) port = new P s port ∧
    nativeSizeP (some a) = nativeSize a ∧ familyP (some a) = family a ∧ getAddressP P (some a) = some (getAddress P a) ∧
    isAnyP (some a) = isAny a ∧ isLoopbackP (some a) = isLoopback a ∧
    toNativeP (some a) (some b) n = (toNative a b n >>= fun r => pure (r.1, some r.2)) :=
  ⟨rfl, rfl, rfl, rfl, rfl, rfl, rfl, rfl⟩

/-- `p_socket_address_to_native` at pointer level: whenever it answers FALSE — `NULL` address, `NULL` destination,
    length 0, or a destination that is too small — not a byte of the destination has changed -/
theorem to_native_false_writes_nothing (a : Option Addr) (dest : Option Buf) (n : Nat)
    (hn : ∀ d, dest = some d → n ≤ d.length) (d' : Option Buf) (h : toNativeP a dest n = .ok (false, d')) : d' = dest := by
  cases a with
  | none => cases dest <;> (simp [toNativeP] at h; exact h.symm)
  | some a =>
    cases dest with
    | none => simp [toNativeP] at h; exact h.symm
    | some d =>
      by_cases hs : n < nativeSize a
      · simp [toNativeP, toNative_small a d n hs] at h; exact h.symm
      · have := toNative_eq_encode a d n (by omega) (hn d rfl)
        simp [toNativeP, this] at h

example : toNativeP none (some [1, 2, 3]) 3 = .ok (false, some [1, 2, 3]) ∧
    toNativeP (some (.v4 #v[1, 2, 3, 4] 80)) (some (List.replicate 15 0xA5)) 15 = .ok (false, some (List.replicate 15 0xA5)) ∧
    toNativeP (some (.v4 #v[1, 2, 3, 4] 80)) (some (List.replicate 16 0xA5)) 16 =
      .ok (true, some [2, 0, 0, 80, 1, 2, 3, 4, 0, 0, 0, 0, 0, 0, 0, 0]) := by
  refine ⟨rfl, by decide, by decide⟩

/-! ## text -/

/-- IPv4 text round trip with the concrete glibc functions, for all 2^32 addresses -/
theorem text_roundtrip_v4 (a : Vector UInt8 4) : pton4 (ntop4 a) = some a := pton4_ntop4 a

-- "192.168.0.1" both ways; "192.168.00.1", "192.168.0" and "256.1.1.1" are rejected
example : ntop4 #v[192, 168, 0, 1] = [49, 57, 50, 46, 49, 54, 56, 46, 48, 46, 49] ∧
    pton4 [49, 57, 50, 46, 49, 54, 56, 46, 48, 46, 49] = some #v[192, 168, 0, 1] ∧
    pton4 [49, 57, 50, 46, 49, 54, 56, 46, 48, 48, 46, 49] = none ∧ pton4 [49, 57, 50, 46, 49, 54, 56, 46, 48] = none ∧
    pton4 [50, 53, 54, 46, 49, 46, 49, 46, 49] = none := by
  decide

/-- through the library: on a platform whose IPv4 functions are the concrete ones, the text of an IPv4
    address creates the same address again (same port) -/
theorem text_roundtrip_v4_lib (P : Platform) (hn : P.ntop4 = ntop4) (hp : P.pton4 = pton4) (a : Vector UInt8 4) (p : UInt16) :
    new P (getAddress P (.v4 a p)) p = .ok (some (.v4 a p)) := by
  have hm : (58 : UInt8) ∉ ntop4 a := by simpa using ntop4_no_colon a
  simp [getAddress, hn, new, hm, hp, pton4_ntop4]

/-- IPv6, relative to the platform contract `pton6 (ntop6 a) = some a` (trusted): the text of an IPv6
    address creates the same address and port again (flow info and scope id are not part of the text).
    The C code sends a text with ':' to `getaddrinfo`; `hgai` says that `getaddrinfo (AI_NUMERICHOST)` and
    `inet_pton` are the same parser on it. -/
theorem text_roundtrip_v6 (P : Platform) (a : Vector UInt8 16) (p : UInt16) (f s : UInt32)
    (h6 : P.pton6 (P.ntop6 a) = some a) (h4 : P.pton4 (P.ntop6 a) = none)
    (hgai : ∀ x, P.pton6 (P.ntop6 a) = some x → (P.ntop6 a).contains 58 = true →
      ∃ q, P.getaddrinfo (P.ntop6 a) = some (10, Spec.encode (.v6 x q 0 0))) :
    new P (getAddress P (.v6 a p f s)) p = .ok (some (.v6 a p 0 0)) := by
  by_cases hc : (P.ntop6 a).contains 58 = true
  · obtain ⟨q, hq⟩ := hgai a h6 hc
    have hw : wrU16 (Spec.encode (.v6 a q 0 0)) 2 (htons p) = .ok (Spec.encode (.v6 a p 0 0)) := by
      simp [wrU16, wr, bytes_htons, Spec.encode, Spec.le32, toList16 a]
    simp only [getAddress, new, SA.hasGetaddrinfo, hc, Bool.and_self, if_true, hq, SA.afInet6, SA.sizeofSockaddrIn6,
      SA.sin6PortOff, encode_length, nativeSize, and_self, hw, Res.ok_bind]
    rw [newFromNative_eq_decode (Spec.encode (.v6 a p 0 0)) 28 (by simp [encode_length, nativeSize, SA.sizeofSockaddrIn6]) rfl]
    have := decode_encode (.v6 a p 0 0) [] 28 (Nat.le_refl _)
    simpa using this
  · have hm : (58 : UInt8) ∉ P.ntop6 a := by simpa using hc
    simp [getAddress, new, hm, h4, h6]

-- a platform that prints ::1 as "::1" and whose getaddrinfo / inet_pton read it back
example : new { pton4 := fun _ => none, pton6 := fun s => if s = [58, 58, 49] then some SA.in6addrLoopback else none,
                ntop4 := ntop4, ntop6 := fun _ => [58, 58, 49],
                getaddrinfo := fun _ => some (10, Spec.encode (.v6 SA.in6addrLoopback 0 0 0)) }
    [58, 58, 49] 443 = .ok (some (.v6 SA.in6addrLoopback 443 0 0)) := by decide

/-- creation from text: a string with ':' goes to `getaddrinfo` and succeeds exactly when that returns an
    AF_INET6 result of 28 bytes that is an IPv6 structure (the port is then stored over bytes 2..3); any other
    string is tried with `inet_pton (AF_INET)` and then `inet_pton (AF_INET6)`.  Never a fault. -/
theorem new_dispatch (P : Platform) (s : List UInt8) (port : UInt16) :
    new P s port = .ok (
      if s.contains 58 then
        match P.getaddrinfo s with
        | some (fam, sa) =>
          if fam = 10 ∧ sa.length = 28 then Spec.decode (sa.take 2 ++ [Spec.hi port, Spec.lo port] ++ sa.drop 4) 28 else none
        | none => none
      else
        match P.pton4 s with
        | some a => some (.v4 a port)
        | none =>
          match P.pton6 s with
          | some a => some (.v6 a port 0 0)
          | none => none) := by
  by_cases hc : s.contains 58 = true
  · simp only [new, SA.hasGetaddrinfo, hc, Bool.and_self, if_true]
    cases hg : P.getaddrinfo s with
    | none => rfl
    | some r =>
      obtain ⟨fam, sa⟩ := r
      by_cases hf : fam = 10 ∧ sa.length = 28
      · have hw : wrU16 sa 2 (htons port) = .ok (sa.take 2 ++ [Spec.hi port, Spec.lo port] ++ sa.drop 4) := by
          simp [wrU16, wr, bytes_htons, hf.2]
        have hlen : (sa.take 2 ++ [Spec.hi port, Spec.lo port] ++ sa.drop 4).length = 28 := by
          simp [hf.2]
        simp only [SA.afInet6, SA.sizeofSockaddrIn6, SA.sin6PortOff, hf, and_self, if_true, hw, Res.ok_bind, hlen]
        rw [newFromNative_eq_decode _ _ (Nat.le_of_eq hlen.symm) rfl]
      · simp [SA.afInet6, SA.sizeofSockaddrIn6, hf]
  · have hc' : s.contains 58 = false := by simpa using hc
    simp only [new, hc', Bool.and_false, Bool.false_eq_true, if_false]
    cases P.pton4 s with
    | some a => rfl
    | none => cases P.pton6 s <;> rfl

/-- without ':' creation succeeds exactly for the strings one of the two platform parsers accepts -/
theorem new_succeeds_iff (P : Platform) (s : List UInt8) (port : UInt16) (hc : s.contains 58 = false) :
    (∃ a, new P s port = .ok (some a)) ↔ ((P.pton4 s).isSome ∨ (P.pton6 s).isSome) := by
  rw [new_dispatch]
  simp only [hc, Bool.false_eq_true, if_false]
  cases P.pton4 s <;> cases P.pton6 s <;> simp

/-- with ':' creation succeeds exactly when `getaddrinfo` answers with an AF_INET6 result of 28 bytes whose own
    family field is a family `p_socket_address_new_from_native` knows (a platform that says `ai_family == AF_INET6`
    stores AF_INET6 there; the C code does not look, and would take an AF_INET structure as IPv4) -/
theorem new_succeeds_iff_colon (P : Platform) (s : List UInt8) (port : UInt16) (hc : s.contains 58 = true) :
    (∃ a, new P s port = .ok (some a)) ↔
      ∃ sa, P.getaddrinfo s = some (10, sa) ∧ sa.length = 28 ∧ (sa.take 2 = [10, 0] ∨ sa.take 2 = [2, 0]) := by
  rw [new_dispatch]
  simp only [hc, if_true]
  cases hg : P.getaddrinfo s with
  | none => simp
  | some r =>
    obtain ⟨fam, sa⟩ := r
    by_cases hf : fam = 10 ∧ sa.length = 28
    · obtain ⟨rfl, hl⟩ := hf
      obtain ⟨c0, c1, c2, c3, c4, c5, c6, c7, c8, c9, c10, c11, c12, c13, c14, c15, c16, c17, c18, c19, c20, c21,
        c22, c23, c24, c25, c26, c27, r', rfl⟩ := exists_cons28 (l := sa) (by omega)
      have hr : r' = [] := by simpa using hl
      subst hr
      by_cases h0 : c0 = 10 ∧ c1 = 0
      · obtain ⟨rfl, rfl⟩ := h0
        simp [Spec.decode]
      · by_cases h2 : c0 = 2 ∧ c1 = 0
        · obtain ⟨rfl, rfl⟩ := h2
          simp [Spec.decode]
        · have hd := decode_none_of_family c0 c1 ([Spec.hi port, Spec.lo port] ++ [c4, c5, c6, c7, c8, c9, c10, c11, c12, c13,
            c14, c15, c16, c17, c18, c19, c20, c21, c22, c23, c24, c25, c26, c27]) 28 h2 h0
          simp at hd
          simp [hd]
          exact ⟨fun h1 h2' => h0 ⟨h1, h2'⟩, fun h1 h2' => h2 ⟨h1, h2'⟩⟩
    · simp [hf]
      intro h1 h2
      exact absurd ⟨h1, h2⟩ hf

-- "::1" through a getaddrinfo that knows it; "1.2.3.4" through the concrete IPv4 parser
example : ∃ P : Platform, new P [58, 58, 49] 80 = .ok (some (.v6 SA.in6addrLoopback 80 0 0)) :=
  ⟨{ pton4 := fun _ => none, pton6 := fun _ => none, ntop4 := fun _ => [], ntop6 := fun _ => [],
     getaddrinfo := fun _ => some (10, Spec.encode (.v6 SA.in6addrLoopback 0 0 0)) }, by decide⟩

example : ∃ P : Platform, new P [49, 46, 50, 46, 51, 46, 52] 80 = .ok (some (.v4 #v[1, 2, 3, 4] 80)) :=
  ⟨{ pton4 := pton4, pton6 := fun _ => none, ntop4 := ntop4, ntop6 := fun _ => [], getaddrinfo := fun _ => none }, by decide⟩

example : (∃ a, new { pton4 := pton4, pton6 := fun _ => none, ntop4 := ntop4, ntop6 := fun _ => [], getaddrinfo := fun _ => none }
    [49, 46, 50, 46, 51] 80 = .ok (some a)) ↔ False := by
  rw [new_succeeds_iff _ _ _ (by decide)]; decide

/-! ## getters and setters -/

/-- flow info / scope id exist for IPv6 only; setting one leaves everything else alone; both are supported
    in this configuration -/
theorem flow_scope (x : Vector UInt8 16) (p : UInt16) (f s v : UInt32) (y : Vector UInt8 4) :
    flowInfo (setFlowInfo (.v6 x p f s) v) = v ∧ scopeId (setFlowInfo (.v6 x p f s) v) = s ∧
    scopeId (setScopeId (.v6 x p f s) v) = v ∧ flowInfo (setScopeId (.v6 x p f s) v) = f ∧
    setFlowInfo (.v4 y p) v = .v4 y p ∧ setScopeId (.v4 y p) v = .v4 y p ∧
    flowInfo (.v4 y p) = 0 ∧ scopeId (.v4 y p) = 0 ∧ isFlowInfoSupported = true ∧ isScopeIdSupported = true := by
  simp [flowInfo, scopeId, setFlowInfo, setScopeId, SA.hasFlowinfo, SA.hasScopeId, isFlowInfoSupported, isScopeIdSupported]

example : flowInfo (setFlowInfo (.v6 SA.in6addrAny 1 2 3) 9) = 9 ∧ scopeId (setScopeId (.v4 #v[1, 2, 3, 4] 1) 9) = 0 := by decide

end PV.Props.C17

import PV.Lemmas.CondVarLive
import PV.Lemmas.CondVarEC
/-!
# C03 — condition variable

"`p_cond_variable_wait` releases the given mutex and blocks as one atomic step and returns only
with that mutex re-acquired by the caller.  A signal issued while threads are waiting wakes at
least one of them and a broadcast wakes all of them, so a consumer that re-checks its predicate in
a loop under the mutex never misses an event and producer/consumer exchanges always complete."

Layers (see `PV.Model.CondVar`): the Mesa monitor `Mon` is the TRUSTED contract of
`pthread_mutex_*` / `pthread_cond_*` (atomic release-and-wait, signal wakes ≥ 1 waiter, spurious
wake-ups allowed).  Proved here: (1) what the contract gives (`wait_atomic_release`,
`wait_returns_holding`, `signal_wakes_one`, `broadcast_wakes_all`); (2) that the wrappers of
`pcondvariable-posix.c` reach exactly that contract on exactly the mutex the caller locked
(`layout_cast_ok` and the mapping theorems, over the facts GENERATED from the working tree);
(3) that clients written with the `while` loop are safe, deadlock-free and terminate for ANY number
of producers, consumers, items, any capacity ≥ 1, `signal` or `broadcast`, every interleaving and
any number of spurious wake-ups (`pc_*`, `never_misses_event`); (4) a negative example: the same
consumer with `if` instead of `while` is broken.
-/
namespace PV.CondVar
open PV.Generated.CondVar (NFn Arg)

/-! ## 1. the monitor: what wait / signal / broadcast do -/

/-- **wait is atomic**: the step that starts in a state where `t` owns the mutex ends in a state
    where the mutex is free AND `t` is already in the wait-set — there is no state in between in
    which `t` neither holds the mutex nor waits.  And `t` stays in the wait-set through any later
    steps of anybody until a wake-up addressed to it (signal choosing it, broadcast, spurious):
    no wake-up can be lost in a window after the release. -/
theorem wait_atomic_release {m m' : Mon} {t : Tid} {cv : CvId} (h : m.wait t cv = some m') :
    m.owner = some t ∧ m'.owner = none ∧ t ∈ m'.wset cv ∧
    ∀ (ls : List MLabel) (m'' : Mon), m'.run ls = some m'' →
      (∀ l, l ∈ ls → l.wakes t cv = false) → t ∈ m''.wset cv := by
  obtain ⟨ho, rfl⟩ := mon_wait_some h
  have hin : t ∈ upd m.wset cv (m.wset cv ++ [t]) cv := by simp [upd]
  exact ⟨ho, rfl, hin, fun ls m'' hr hl => mon_run_keeps_waiter hr hin hl⟩

/-- hence a signal issued any time after the waiter released the mutex finds a waiter: it cannot
    fall into the "nobody waits, signal is dropped" case -/
theorem signal_after_wait_finds_waiter {m m' m'' m3 : Mon} {t : Tid} {cv : CvId} {ls : List MLabel}
    {w : Option Tid} (h : m.wait t cv = some m') (hr : m'.run ls = some m'')
    (hl : ∀ l, l ∈ ls → l.wakes t cv = false) (hs : m''.signal cv w = some m3) :
    ∃ x, w = some x ∧ x ∈ m''.wset cv ∧ x ∈ m3.woken cv := by
  have ht := (wait_atomic_release h).2.2.2 ls m'' hr hl
  rcases mon_signal_some hs with ⟨_, he, _⟩ | ⟨x, rfl, hx, rfl⟩
  · rw [he] at ht; cases ht
  · exact ⟨x, rfl, hx, by simp [Mon.wake, upd]⟩

example : ∃ m', (({ Mon.init with owner := some 7 } : Mon).wait 7 0) = some m' ∧ m'.wset 0 = [7] :=
  ⟨_, rfl, rfl⟩

/-- **wait returns holding the mutex** (monitor): the re-acquire step — the only step that lets
    the native wait return — makes the caller the owner, and needs the mutex to be free -/
theorem wait_returns_holding {m m' : Mon} {t : Tid} {cv : CvId} (h : m.reacquire cv t = some m') :
    m.owner = none ∧ t ∈ m.woken cv ∧ m'.owner = some t := by
  obtain ⟨hw, ho, rfl⟩ := mon_reacquire_some h
  exact ⟨ho, hw, rfl⟩

/-- **wait returns holding the mutex** (clients, any configuration): whenever a step takes thread
    `i` out of `p_cond_variable_wait`, that step is `i`'s own re-acquisition and `i` is the owner
    afterwards -/
theorem wait_returns_holding_client {cfg : Cfg} {s s' : PCState} {l : Label} {i : Tid} {th th' : Thr}
    (h : exec cfg s l = some s') (hth : s.thr[i]? = some th) (hpc : th.pc = .inwait)
    (hth' : s'.thr[i]? = some th') (hpc' : th'.pc ≠ .inwait) :
    l = .reacquire i ∧ s'.mon.owner = some i :=
  leave_wait h hth hpc hth' hpc'

/-- a thread inside `p_cond_variable_wait` never owns the mutex and is always in the wait-set of
    its condition variable or already woken — in every reachable state of the client system -/
theorem wait_atomic_release_client {cfg : Cfg} {K : Nat} {s : PCState} (hrc : cfg.recheck = true)
    (hR : Reach cfg K s) {i : Tid} {th : Thr} (hth : s.thr[i]? = some th) (hpc : th.pc = .inwait) :
    s.mon.owner ≠ some i ∧ (i ∈ s.mon.wset th.role.waitCv ∨ i ∈ s.mon.woken th.role.waitCv) := by
  have hI := reach_inv hrc hR
  refine ⟨?_, hI.in_wait i th hth hpc⟩
  intro ho
  obtain ⟨t, ht, hcs⟩ := (hI.owner_cs i).mp ho
  rw [hth] at ht; cases ht
  simp [hpc, PC.inCS] at hcs

/-- **signal wakes one**: with a non-empty wait-set a signal cannot be dropped; one waiter moves
    to "woken" and the wait-set gets strictly smaller -/
theorem signal_wakes_one {m m' : Mon} {cv : CvId} {w : Option Tid} (hne : m.wset cv ≠ [])
    (h : m.signal cv w = some m') :
    ∃ x, w = some x ∧ x ∈ m.wset cv ∧ x ∈ m'.woken cv ∧
      (m'.wset cv).length + 1 = (m.wset cv).length ∧ ((m.wset cv).Nodup → x ∉ m'.wset cv) := by
  rcases mon_signal_some h with ⟨_, he, _⟩ | ⟨x, rfl, hx, rfl⟩
  · exact absurd he hne
  · refine ⟨x, rfl, hx, by simp [Mon.wake, upd], (wake_len m cv x hx).1, ?_⟩
    intro hnd hm
    simp only [Mon.wake, upd_same] at hm
    exact (hnd.mem_erase_iff.mp hm).1 rfl

example : ∃ m', (({ Mon.init with wset := fun _ => [3, 4] } : Mon).signal 0 (some 4)) = some m' ∧
    m'.wset 0 = [3] ∧ m'.woken 0 = [4] := ⟨_, rfl, rfl, rfl⟩

/-- **broadcast wakes all**: afterwards the wait-set is empty and every former waiter is woken;
    other condition variables are untouched -/
theorem broadcast_wakes_all (m : Mon) (cv : CvId) :
    (m.broadcast cv).wset cv = [] ∧ (∀ x, x ∈ m.wset cv → x ∈ (m.broadcast cv).woken cv) ∧
    (∀ c, c ≠ cv → (m.broadcast cv).wset c = m.wset c ∧ (m.broadcast cv).woken c = m.woken c) := by
  refine ⟨by simp [Mon.broadcast, upd], ?_, fun c hc => broadcast_other m hc⟩
  intro x hx
  simp [Mon.broadcast, upd, hx]

example : (({ Mon.init with wset := fun _ => [3, 4, 5] } : Mon).broadcast 1).woken 1 = [3, 4, 5] := rfl

/-! ## 2. the wrappers reach the contract (over the generated facts of the working tree) -/

/-- the translator recognised every wrapper body and both layouts -/
theorem translator_recognised : Generated.CondVar.problems = [] := by decide

/-- **the cast in `p_cond_variable_wait` is sound**: `struct PMutex_` consists of exactly one
    field, of the native mutex type, at offset 0, and is exactly as large as `pthread_mutex_t`;
    so `(pthread_mutex_t *) mutex` is the address of the handle `&mutex->hdl` -/
theorem layout_cast_ok :
    Generated.CondVar.pmutex.fields.map (fun f => (f.offset, f.isNative, f.size)) =
      [(0, true, Generated.CondVar.sizeofPthreadMutex)] ∧
    Generated.CondVar.pmutex.size = Generated.CondVar.sizeofPthreadMutex ∧
    handleOffset generated.pmutex = some 0 ∧
    evalArg generated.pmutex generated.pcond (envCM .condObj .mutexObj) (.cast "mutex") =
      evalArg generated.pmutex generated.pcond (envCM .condObj .mutexObj) (.field "mutex" "hdl") := by
  decide

/-- `p_cond_variable_wait (cond, mutex)`: NULL arguments → FALSE without any native call;
    otherwise exactly one `pthread_cond_wait` on the handle of `cond`; TRUE iff it returned 0 -/
theorem wait_maps_result (rc : Int) :
    pCondWait generated .nullp .mutexObj rc = { ret := some false, calls := [] } ∧
    pCondWait generated .condObj .nullp rc = { ret := some false, calls := [] } ∧
    (pCondWait generated .condObj .mutexObj rc).ret = some (rc == 0) ∧
    (pCondWait generated .condObj .mutexObj rc).calls.map (·.fn) = [.cond_wait] :=
  ⟨rfl, rfl, rfl, rfl⟩

/-- `wait` hands `pthread_cond_wait` the very pointer `p_mutex_lock` / `p_mutex_unlock` hand to
    `pthread_mutex_lock` / `pthread_mutex_unlock` for the same `PMutex`: the handle of that object -/
theorem wait_passes_locked_mutex (rc rc' : Int) :
    ∃ k, handleOffset generated.pmutex = some k ∧
      (pCondWait generated .condObj .mutexObj rc).calls.map (·.args[1]?) = [some (.mutex k)] ∧
      (pMutexLock generated .mutexObj rc').calls = [{ fn := .mutex_lock, args := [.mutex k] }] ∧
      (pMutexUnlock generated .mutexObj rc').calls = [{ fn := .mutex_unlock, args := [.mutex k] }] ∧
      (pMutexTrylock generated .mutexObj rc').calls = [{ fn := .mutex_trylock, args := [.mutex k] }] :=
  ⟨0, by decide, rfl, rfl, rfl, rfl⟩

/-- signal → `pthread_cond_signal` (or, equally good for "wakes at least one",
    `pthread_cond_broadcast`), broadcast → `pthread_cond_broadcast`, both on the same cond handle
    `wait` uses; results TRUE iff 0; NULL → FALSE, no call -/
theorem signal_broadcast_mapping (rc : Int) :
    ∃ h, handleOffset generated.pcond = some h ∧
      (pCondWait generated .condObj .mutexObj rc).calls.map (·.args[0]?) = [some (.cond h)] ∧
      (pCondSignal generated .condObj rc = { ret := some (rc == 0), calls := [{ fn := .cond_signal, args := [.cond h] }] } ∨
       pCondSignal generated .condObj rc = { ret := some (rc == 0), calls := [{ fn := .cond_broadcast, args := [.cond h] }] }) ∧
      pCondBroadcast generated .condObj rc = { ret := some (rc == 0), calls := [{ fn := .cond_broadcast, args := [.cond h] }] } ∧
      pCondSignal generated .nullp rc = { ret := some false, calls := [] } ∧
      pCondBroadcast generated .nullp rc = { ret := some false, calls := [] } :=
  ⟨0, by decide, rfl, by first | exact Or.inl rfl | exact Or.inr rfl, rfl, rfl, rfl⟩

/-- `p_cond_variable_new`: allocation failure → NULL, nothing called; `pthread_cond_init` failure →
    the block is released and NULL returned; success → the object.  `p_cond_variable_free`: NULL →
    nothing; otherwise `pthread_cond_destroy` on the handle and the block is released even when
    destroy fails. -/
theorem new_free_mapping (rc : Int) (hrc : rc ≠ 0) :
    runNew generated generated.condNew .condObj true rc = { obj := false, calls := [], freed := false } ∧
    runNew generated generated.condNew .condObj false rc =
      { obj := false, calls := [{ fn := .cond_init, args := [.cond 0, .null] }], freed := true } ∧
    runNew generated generated.condNew .condObj false 0 =
      { obj := true, calls := [{ fn := .cond_init, args := [.cond 0, .null] }], freed := false } ∧
    runFree generated generated.condFree (envCM .nullp .nullp) = { calls := [], freed := false } ∧
    runFree generated generated.condFree (envCM .condObj .nullp) =
      { calls := [{ fn := .cond_destroy, args := [.cond 0] }], freed := true } := by
  refine ⟨rfl, ?_, rfl, rfl, rfl⟩
  have : (rc == 0) = false := by simpa using hrc
  simp [runNew, this]
  decide

/-- the library calls ARE the monitor operations, on the monitor's own mutex: the logged native
    call of each wrapper, read in the monitor (`interp` rejects a call that does not address the
    handle the thread locked), is `Mon.wait` / `Mon.signal` / `Mon.broadcast` / `Mon.lock` /
    `Mon.unlock` -/
theorem lib_calls_are_monitor_ops (m : Mon) (t : Tid) (cv : CvId) (w : Option Tid) :
    ((pCondWait generated .condObj .mutexObj 0).calls.map (interp generated t cv w m) = [m.wait t cv]) ∧
    ((pCondSignal generated .condObj 0).calls.map (interp generated t cv w m) = [m.signal cv w] ∨
     (pCondSignal generated .condObj 0).calls.map (interp generated t cv w m) = [some (m.broadcast cv)]) ∧
    ((pCondBroadcast generated .condObj 0).calls.map (interp generated t cv w m) = [some (m.broadcast cv)]) ∧
    ((pMutexLock generated .mutexObj 0).calls.map (interp generated t cv w m) = [m.lock t]) ∧
    ((pMutexUnlock generated .mutexObj 0).calls.map (interp generated t cv w m) = [m.unlock t]) :=
  ⟨rfl, by first | exact Or.inl rfl | exact Or.inr rfl, rfl, rfl, rfl⟩

/-- end to end: `p_cond_variable_broadcast` empties the wait-set of its condition variable -/
theorem lib_broadcast_wakes_all (m m' : Mon) (t : Tid) (cv : CvId)
    (h : (pCondBroadcast generated .condObj 0).calls.map (interp generated t cv none m) = [some m']) :
    m'.wset cv = [] ∧ ∀ x, x ∈ m.wset cv → x ∈ m'.woken cv := by
  rw [(lib_calls_are_monitor_ops m t cv none).2.2.1] at h
  simp at h; subst h
  exact ⟨(broadcast_wakes_all m cv).1, (broadcast_wakes_all m cv).2.1⟩

/-- end to end: `p_cond_variable_signal` with waiters present wakes at least one of them -/
theorem lib_signal_wakes_one (m m' : Mon) (t : Tid) (cv : CvId) (w : Option Tid) (hne : m.wset cv ≠ [])
    (h : (pCondSignal generated .condObj 0).calls.map (interp generated t cv w m) = [some m']) :
    ∃ x, x ∈ m.wset cv ∧ x ∈ m'.woken cv ∧ (m'.wset cv).length < (m.wset cv).length := by
  rcases (lib_calls_are_monitor_ops m t cv w).2.1 with hc | hc
  · rw [hc] at h
    simp at h
    obtain ⟨x, _, hx, hw, hl, _⟩ := signal_wakes_one hne h
    exact ⟨x, hx, hw, by omega⟩
  · rw [hc] at h
    simp at h; subst h
    cases hws : m.wset cv with
    | nil => exact absurd hws hne
    | cons x rest =>
      refine ⟨x, by simp, (broadcast_wakes_all m cv).2.1 x (by simp [hws]), ?_⟩
      rw [(broadcast_wakes_all m cv).1]; simp

/-! ## 3. clients -/

/-- **safety of the bounded buffer**, all N, M, C, item counts, interleavings, spurious wake-ups:
    the buffer never exceeds its capacity (and never underflows: no take on an empty / put on a
    full buffer is executed); what has been consumed followed by what is in the buffer is exactly
    what has been produced, in order — FIFO, nothing lost, nothing duplicated, nothing invented —
    in particular the consumed items are a sub-multiset of the produced ones; at most one thread is
    inside the critical section. -/
theorem pc_safety {cfg : Cfg} {K : Nat} {s : PCState} (hrc : cfg.recheck = true) (hR : Reach cfg K s) :
    s.buf.length ≤ cfg.cap ∧ s.bad = false ∧ s.produced = s.consumed ++ s.buf ∧
    (∀ x, s.consumed.count x ≤ s.produced.count x) ∧
    (∀ (i j : Tid) (ti tj : Thr), s.thr[i]? = some ti → s.thr[j]? = some tj → ti.pc.inCS = true → tj.pc.inCS = true → i = j) := by
  have hI := reach_inv hrc hR
  refine ⟨hI.cap, hI.bad, hI.fifo, ?_, ?_⟩
  · intro x; rw [hI.fifo, List.count_append]; omega
  · intro i j ti tj hi hj ci cj
    have h1 := (hI.owner_cs i).mpr ⟨ti, hi, ci⟩
    have h2 := (hI.owner_cs j).mpr ⟨tj, hj, cj⟩
    rw [h1] at h2; cases h2; rfl

/-- **no deadlock**: for every number of producers and consumers, every capacity ≥ 1, every
    distribution of K items to produce and K to consume, `signal` or `broadcast`: every reachable
    state in which some thread still has work has an enabled step that is not a spurious wake-up -/
theorem pc_no_deadlock {cfg : Cfg} {K : Nat} {s : PCState} (hcap : 0 < cfg.cap) (hrc : cfg.recheck = true)
    (hR : Reach cfg K s) (hnf : isFinal s = false) :
    ∃ l s', l.isSpurious = false ∧ exec cfg s l = some s' :=
  no_deadlock_of_inv hcap hrc (reach_inv hrc hR) hnf

/-- **exchanges always complete**: `mu` strictly decreases on every non-spurious step and grows by
    3 on a spurious wake-up; so a run from an initial state with `k` spurious wake-ups has at most
    `mu init + 3 k` other steps, and a run that cannot be continued by a non-spurious step has
    reached the final state: every thread done, all K items produced, all consumed, in order. -/
theorem pc_terminates {cfg : Cfg} {K : Nat} {thr : List Thr} {ls : List Label} {s : PCState}
    (hcap : 0 < cfg.cap) (hrc : cfg.recheck = true) (hinit : InitOK K thr)
    (hrun : runLabels cfg (initState thr) ls = some s) :
    nonSpur ls + mu s ≤ mu (initState thr) + 3 * spur ls ∧
    ((∀ l, l.isSpurious = false → exec cfg s l = none) →
      isFinal s = true ∧ s.consumed = s.produced ∧ s.produced.length = K ∧ s.buf = []) := by
  have hI0 : Inv cfg K (initState thr) := inv_init hinit
  have hI := run_inv hrc hI0 hrun
  refine ⟨run_bound hrc hI0 hrun, ?_⟩
  intro hstuck
  have hf : isFinal s = true := by
    cases hf : isFinal s with
    | true => rfl
    | false =>
      obtain ⟨l, s', hl, he⟩ := no_deadlock_of_inv hcap hrc hI hf
      rw [hstuck l hl] at he; cases he
  exact ⟨hf, final_exchanged hI hf⟩

/-- the measure statement on single steps -/
theorem pc_measure_decreases {cfg : Cfg} {K : Nat} {s s' : PCState} {l : Label} (hrc : cfg.recheck = true)
    (hR : Reach cfg K s) (h : exec cfg s l = some s') :
    (l.isSpurious = false → mu s' < mu s) ∧ (l.isSpurious = true → mu s' = mu s + 3) :=
  mu_step (reach_inv hrc hR) hrc h

/-- there is no infinite execution with only finitely many spurious wake-ups -/
theorem pc_no_infinite_run {cfg : Cfg} {K : Nat} {thr : List Thr} (hrc : cfg.recheck = true)
    (hinit : InitOK K thr) (σ : Nat → PCState) (ℓ : Nat → Label) (h0 : σ 0 = initState thr)
    (hstep : ∀ k, exec cfg (σ k) (ℓ k) = some (σ (k + 1))) :
    ∀ B, ∃ k, B ≤ k ∧ (ℓ k).isSpurious = true := by
  intro B
  apply Classical.byContradiction
  intro hno
  refine no_infinite_run hrc σ ℓ (by rw [h0]; exact inv_init hinit) hstep B ?_
  intro k hk
  cases hs : (ℓ k).isSpurious with
  | false => rfl
  | true => exact (hno ⟨k, hk, hs⟩).elim

/-- **never misses an event** (event-counter client, any number of waiters and signallers): in
    every reachable state in which some waiter is blocked in the wait-set, the events not yet
    consumed are matched by at least as many agents already on their way — waiters woken and about
    to re-acquire, threads re-checking the predicate under the mutex, signallers that have
    incremented and are about to signal.  In particular a waiter is never blocked with its
    predicate true (`consumed < events`) and no wake-up pending. -/
theorem never_misses_event {s : EState} (hR : EReach s) (hblocked : s.mon.wset 0 ≠ []) :
    s.events - s.consumed ≤ eTokens s ∧ (s.consumed < s.events → 0 < eTokens s) := by
  have h := (ereach_inv hR).tok hblocked
  exact ⟨h, fun hlt => by omega⟩

/-! ### non-vacuity: concrete runs -/

def demoCfg : Cfg := { cap := 1, bcast := false, recheck := true }
def demoThr : List Thr := mkThreads [2] [1, 1]

/-- consumers 1 and 2 wait; producer 0 puts and signals: exactly one of them is woken, takes the
    item …; the run ends in the final state with both items exchanged -/
def demoRun : List Label :=
  [.lock 1, .check 1, .lock 2, .check 2,                       -- both consumers wait on notEmpty
   .lock 0, .check 0, .signal 0 (some 2), .unlock 0,           -- put, wake consumer 2
   .lock 0, .check 0,                                          -- buffer full: producer waits on notFull
   .reacquire 2, .check 2, .signal 2 (some 0), .unlock 2,      -- take, wake the producer
   .spurious 1, .reacquire 1, .check 1,                        -- spurious wake-up: re-check, wait again
   .reacquire 0, .check 0, .signal 0 (some 1), .unlock 0,      -- put, wake consumer 1
   .reacquire 1, .check 1, .signal 1 none, .unlock 1]

example : InitOK 2 demoThr := by
  refine ⟨?_, ?_, ?_⟩
  · decide
  · decide
  · decide

example : (runLabels demoCfg (initState demoThr) demoRun).map
    (fun s => (isFinal s, s.consumed, s.buf, s.bad)) = some (true, [(0, 2), (0, 1)], [], false) := by decide

example : mu (initState demoThr) = 61 := by decide

/-- event counter: a waiter blocks, a signaller increments; between the increment and the signal
    the waiter is blocked with its predicate true — and the signaller at `sig` is the pending wake-up -/
example : ((eexec (einit [⟨.waiter, .start, 1⟩, ⟨.signaller, .start, 1⟩]) (.lock 0)).bind fun s =>
    (eexec s (.step 0)).bind fun s => (eexec s (.lock 1)).bind fun s => (eexec s (.step 1)).map fun s =>
      (s.mon.wset 0, s.events, s.consumed, eTokens s)) = some ([0], 1, 0, 1) := by decide

/-! ## 4. negative example: `if` instead of `while`

The same consumer, but acting right after `p_cond_variable_wait` returns (`recheck := false`).
(a) ONE spurious wake-up suffices: the consumer takes from an empty buffer.
(b) No spurious wake-up is needed either: a signalled consumer whose item is taken by another
    consumer before it re-acquires the mutex ("stolen wake-up") does the same.
The very same traces are harmless for the `while` client. -/

def ifCfg : Cfg := { cap := 1, bcast := false, recheck := false }

def ifTraceSpurious : List Label := [.lock 1, .check 1, .spurious 1, .reacquire 1]

def ifTraceStolen : List Label :=
  [.lock 1, .check 1,                                   -- consumer 1 waits
   .lock 0, .check 0, .signal 0 (some 1), .unlock 0,    -- producer puts one item, wakes consumer 1
   .lock 2, .check 2, .signal 2 none, .unlock 2,        -- consumer 2 gets the mutex first and takes it
   .reacquire 1]                                        -- consumer 1 returns from wait and takes: empty!

theorem if_instead_of_while_breaks :
    (runLabels ifCfg (initState (mkThreads [1] [1])) ifTraceSpurious).map (·.bad) = some true ∧
    (runLabels ifCfg (initState (mkThreads [1] [1, 1])) ifTraceStolen).map (·.bad) = some true ∧
    (runLabels { ifCfg with recheck := true } (initState (mkThreads [1] [1])) ifTraceSpurious).map
      (fun s => (s.bad, s.thr[1]?.map (·.pc))) = some (false, some .check) ∧
    (runLabels { ifCfg with recheck := true } (initState (mkThreads [1] [1, 1])) ifTraceStolen).map
      (fun s => (s.bad, s.thr[1]?.map (·.pc))) = some (false, some .check) := by
  decide

end PV.CondVar

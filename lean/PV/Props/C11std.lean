import PV.Props.C11md
import PV.Lemmas.Hash.StdBlocks
/-!
# C11 (Merkle–Damgård group) against the standards' own compression functions and constants

`PV.Props.C11md` proves "digest = `H` of the concatenation" for a one-shot `H` whose padding,
length field, block parsing and output come from RFC 1321 / FIPS 180-4 but whose compression
function and initial value are shared with the model.  Here that residue is removed:

* `PV.Spec.HashStd` writes the compression functions as the standards do (named boolean functions,
  schedule recurrences, one round per `t` on a tuple of working variables) and the constants by
  their defining formulas (`Std.fracRoot`: bits of the fractional parts of square / cube roots of
  the first primes; SHA-1's `⌊2³⁰·√n⌋`; MD5's shift amounts and message-word order);
* `md5Block_std … sha512Block_std` (re-exported below): the model's block functions — the C
  macros' transliterations over the extracted C tables — equal them on every input;
* `Std.iroot_spec`: the root used by the formulas is the floor of the real root;
* hence `Spec.x = Std.x` for the six algorithms, and the `chunking_*` / `history` theorems hold
  against `Std.x.H`, in which nothing comes from the C code.

**Still data, not formula:** the 64 MD5 constants `T[i] = ⌊2³²·|sin(i+1)|⌋` (the RFC's printed table,
re-derived from the sine in floating point when `HashStd.lean` was written) and the MD5 / SHA-1
initial values (given as byte patterns by the standards).  The standards' *text* itself is of
course read by a human: `PV.Spec.HashStd` is short enough to be compared with RFC 1321 §3.4 and
FIPS 180-4 §4.1, §4.2, §5.3, §6.1.2, §6.2.2, §6.4.2 line by line.
-/
namespace PV.Hash
open Spec

/-! ## the block functions -/

/-- MD5: the C steps (`F` as `z ^ (x & (y ^ z))`, `G` as `F (z, x, y)`, tables of constants, shifts
    and message indices) are RFC 1321's sixty-four operations, for all inputs -/
theorem md5_block_is_standard (h x : Array UInt32) : md5Block h x = Std.md5Compress h x := md5Block_std h x

/-- SHA-1: ring-buffer schedule and `P_SHA1_ROUND_n` macros = FIPS 180-4 §6.1.2, for every block of 16 words -/
theorem sha1_block_is_standard (h x : Array UInt32) (hx : x.size = 16) : sha1Block h x = Std.sha1Compress h x :=
  sha1Block_std h x hx

/-- SHA-224/256: `P_SHA2_256_P` / `P_SHA2_256_R` with the K table = FIPS 180-4 §6.2.2 with `K_t` the cube-root bits -/
theorem sha256_block_is_standard (h x : Array UInt32) (hx : x.size = 16) :
    sha256Block h x = Std.sha256Compress h x := sha256Block_std h x hx

/-- SHA-384/512 = FIPS 180-4 §6.4.2 -/
theorem sha512_block_is_standard (h x : Array UInt64) (hx : x.size = 16) :
    sha512Block h x = Std.sha512Compress h x := sha512Block_std h x hx

/-! ## the constants -/

/-- the 64 + 80 round constants of the C tables are the first 32 / 64 bits of the fractional parts of
    the cube roots of the first 64 / 80 primes; the SHA-1 constants are `⌊2³⁰·√2⌋ …` -/
theorem round_constants_are_standard :
    (∀ t, t < 64 → Generated.HashMD.sha256K[t]! = UInt32.ofNat (Std.fracRoot 3 32 (Std.prime t))) ∧
    (∀ t, t < 80 → Generated.HashMD.sha512K[t]! = UInt64.ofNat (Std.fracRoot 3 64 (Std.prime t))) ∧
    (∀ t, t < 80 → Generated.HashMD.sha1K[t / 20]! = Std.sha1K t) :=
  ⟨sha256K_std, sha512K_std, sha1K_std⟩

/-- the SHA-2 initial values of the C source are the square-root bits of the first 8 / the 9th–16th primes -/
theorem initial_values_are_standard :
    Generated.HashMD.sha256IV = Std.sha256IV ∧ Generated.HashMD.sha224IV = Std.sha224IV ∧
    Generated.HashMD.sha512IV = Std.sha512IV ∧ Generated.HashMD.sha384IV = Std.sha384IV ∧
    Generated.HashMD.sha1IV = Std.sha1IV ∧ Generated.HashMD.md5IV = Std.md5IV :=
  ⟨sha256IV_std, sha224IV_std, sha512IV_std, sha384IV_std, sha1IV_std, md5IV_std⟩

/-- MD5's per-operation tables of the C source follow the RFC's rules: shift amounts cycle through
    four values per round, message words are taken in the order `i, 5i+1, 3i+5, 7i (mod 16)` -/
theorem md5_tables_are_standard :
    Generated.HashMD.md5K = Std.md5T ∧ (∀ i, i < 64 → Generated.HashMD.md5S[i]! = Std.md5Shift i) ∧
    (∀ i, i < 64 → Generated.HashMD.md5X[i]! = Std.md5Index i) :=
  ⟨md5K_std, md5S_std, md5X_std⟩

/-- `Std.iroot r n = ⌊n^(1/r)⌋`: the formulas above compute what they say -/
theorem root_is_floor_root (r n : Nat) (hr : 0 < r) :
    (Std.iroot r n) ^ r ≤ n ∧ n < (Std.iroot r n + 1) ^ r := Std.iroot_spec r n hr

/-! ## the one-shot specifications coincide -/

theorem size_wordsLE32 (b : ByteArray) : (wordsLE32 b).size = 16 := by simp [wordsLE32]
theorem size_wordsBE32 (b : ByteArray) : (wordsBE32 b).size = 16 := by simp [wordsBE32]
theorem size_wordsBE64 (b : ByteArray) : (wordsBE64 b).size = 16 := by simp [wordsBE64]

theorem md5_spec_is_standard : Spec.md5 = Std.md5 := by
  have hc : (fun (h : Array UInt32) (blk : ByteArray) => md5Block h (wordsLE32 blk)) = fun h blk => Std.md5Compress h (wordsLE32 blk) := by
    funext h blk; exact md5Block_std h _
  unfold Spec.md5 Std.md5
  rw [md5IV_std, hc]

theorem sha1_spec_is_standard : Spec.sha1 = Std.sha1 := by
  have hc : (fun (h : Array UInt32) (blk : ByteArray) => sha1Block h (wordsBE32 blk)) = fun h blk => Std.sha1Compress h (wordsBE32 blk) := by
    funext h blk; exact sha1Block_std h _ (size_wordsBE32 blk)
  unfold Spec.sha1 Std.sha1 Spec.sha32 Std.sha32
  rw [sha1IV_std, hc]

theorem sha224_spec_is_standard : Spec.sha224 = Std.sha224 := by
  have hc : (fun (h : Array UInt32) (blk : ByteArray) => sha256Block h (wordsBE32 blk)) = fun h blk => Std.sha256Compress h (wordsBE32 blk) := by
    funext h blk; exact sha256Block_std h _ (size_wordsBE32 blk)
  unfold Spec.sha224 Std.sha224 Spec.sha32 Std.sha32
  rw [sha224IV_std, hc]

theorem sha256_spec_is_standard : Spec.sha256 = Std.sha256 := by
  have hc : (fun (h : Array UInt32) (blk : ByteArray) => sha256Block h (wordsBE32 blk)) = fun h blk => Std.sha256Compress h (wordsBE32 blk) := by
    funext h blk; exact sha256Block_std h _ (size_wordsBE32 blk)
  unfold Spec.sha256 Std.sha256 Spec.sha32 Std.sha32
  rw [sha256IV_std, hc]

theorem sha384_spec_is_standard : Spec.sha384 = Std.sha384 := by
  have hc : (fun (h : Array UInt64) (blk : ByteArray) => sha512Block h (wordsBE64 blk)) = fun h blk => Std.sha512Compress h (wordsBE64 blk) := by
    funext h blk; exact sha512Block_std h _ (size_wordsBE64 blk)
  unfold Spec.sha384 Std.sha384 Spec.sha64 Std.sha64
  rw [sha384IV_std, hc]

theorem sha512_spec_is_standard : Spec.sha512 = Std.sha512 := by
  have hc : (fun (h : Array UInt64) (blk : ByteArray) => sha512Block h (wordsBE64 blk)) = fun h blk => Std.sha512Compress h (wordsBE64 blk) := by
    funext h blk; exact sha512Block_std h _ (size_wordsBE64 blk)
  unfold Spec.sha512 Std.sha512 Spec.sha64 Std.sha64
  rw [sha512IV_std, hc]

theorem spec_is_standard (t : HashType) : Spec.ofType t = Std.ofType t := by
  cases t
  · exact md5_spec_is_standard
  · exact sha1_spec_is_standard
  · exact sha224_spec_is_standard
  · exact sha256_spec_is_standard
  · exact sha384_spec_is_standard
  · exact sha512_spec_is_standard

/-- the digest the property speaks about, with nothing taken from the C source -/
def Hstd (t : HashType) (msg : ByteArray) : List UInt8 := (Std.ofType t).H msg

theorem H_is_standard (t : HashType) (msg : ByteArray) : H t msg = Hstd t msg := by
  unfold H Hstd; rw [spec_is_standard]

/-! ## the property theorems, restated -/

theorem chunking_std (t : HashType) (chunks : List Src) (hc : ∀ d ∈ chunks, d.size < 2 ^ 64)
    (hb : (Src.concat chunks).size < t.maxBytes) : streamed t chunks = Hstd t (Src.concat chunks) := by
  rw [← H_is_standard]; exact chunking t chunks hc hb

theorem chunking_md5_std (chunks : List Src) (hb : (Src.concat chunks).size < 2 ^ 61) :
    streamed .md5 chunks = Std.md5.H (Src.concat chunks) := by
  rw [← md5_spec_is_standard]; exact chunking_md5 chunks hb
theorem chunking_sha1_std (chunks : List Src) (hb : (Src.concat chunks).size < 2 ^ 61) :
    streamed .sha1 chunks = Std.sha1.H (Src.concat chunks) := by
  rw [← sha1_spec_is_standard]; exact chunking_sha1 chunks hb
theorem chunking_sha224_std (chunks : List Src) (hb : (Src.concat chunks).size < 2 ^ 61) :
    streamed .sha224 chunks = Std.sha224.H (Src.concat chunks) := by
  rw [← sha224_spec_is_standard]; exact chunking_sha224 chunks hb
theorem chunking_sha256_std (chunks : List Src) (hb : (Src.concat chunks).size < 2 ^ 61) :
    streamed .sha256 chunks = Std.sha256.H (Src.concat chunks) := by
  rw [← sha256_spec_is_standard]; exact chunking_sha256 chunks hb
theorem chunking_sha384_std (chunks : List Src) (hc : ∀ d ∈ chunks, d.size < 2 ^ 64)
    (hb : (Src.concat chunks).size < 2 ^ 125) :
    streamed .sha384 chunks = Std.sha384.H (Src.concat chunks) := by
  rw [← sha384_spec_is_standard]; exact chunking_sha384 chunks hc hb
theorem chunking_sha512_std (chunks : List Src) (hc : ∀ d ∈ chunks, d.size < 2 ^ 64)
    (hb : (Src.concat chunks).size < 2 ^ 125) :
    streamed .sha512 chunks = Std.sha512.H (Src.concat chunks) := by
  rw [← sha512_spec_is_standard]; exact chunking_sha512 chunks hc hb

/-- the user view of `history` answers with the standards' digest -/
theorem view_answers_standard (t : HashType) (v : View) :
    (v.step t .getString).2 = .str (hexOf (Hstd t v.msg)) ∧
    ∀ cap, t.hashLen ≤ cap → (v.step t (.getDigest cap)).2 = .dig (some (Hstd t v.msg)) := by
  refine ⟨by simp [View.step, H_is_standard], fun cap hcap => ?_⟩
  have : ¬ t.hashLen > cap := by omega
  simp [View.step, this, H_is_standard]

/-! ## non-vacuity: the defining formulas really produce the well-known numbers -/

example : Std.sha256K 0 = 0x428a2f98 ∧ Std.sha256K 63 = 0xc67178f2 := by decide +kernel
example : Std.sha512K 79 = 0x6c44198c4a475817 := by decide +kernel
example : Std.sha1K 0 = 0x5a827999 ∧ Std.sha1K 79 = 0xca62c1d6 := by decide +kernel
example : Std.sha256IV[0]! = 0x6a09e667 ∧ Std.sha224IV[0]! = 0xc1059ed8 := by decide +kernel
example : Std.prime 0 = 2 ∧ Std.prime 63 = 311 ∧ Std.prime 79 = 409 := by decide +kernel
example : (List.range 64).map Std.md5Index = [0, 1, 2, 3, 4, 5, 6, 7, 8, 9, 10, 11, 12, 13, 14, 15,
    1, 6, 11, 0, 5, 10, 15, 4, 9, 14, 3, 8, 13, 2, 7, 12, 5, 8, 11, 14, 1, 4, 7, 10, 13, 0, 3, 6, 9, 12, 15, 2,
    0, 7, 14, 5, 12, 3, 10, 1, 8, 15, 6, 13, 4, 11, 2, 9] := by decide +kernel

end PV.Hash

import PV.Lemmas.IPC
import PV.Lemmas.IPCMap
namespace PV.IPC
open PV.Generated.IPC

theorem call_claim_after_err (p : Pid) (c c' : Call) (e : Errno) (hwf : ∀ hid st, c = .shmNew hid st → st.wf)
    (h : c.after (.err e) = .cont c') : c'.claim p = c.claim p ∨ c'.claim p = none := by
  cases c with
  | shmNew hid st =>
    obtain ⟨st', rfl, ha⟩ := call_after_cont_shmNew hid st _ _ h
    by_cases hm : ∃ fd, st.pc = .mmap fd
    · obtain ⟨fd, hpc⟩ := hm
      obtain ⟨key, req, ro, created, isExists, size, addr, pc⟩ := st
      simp only at hpc; subst hpc
      simp only [ShmNewSt.after, Out.cont.injEq] at ha
      subst ha
      left; simp [Call.claim]
    · exact shmNew_claim_cont p hid st st' _ (hwf hid st rfl) (fun fd hpc => hm ⟨fd, hpc⟩) ha
  | shmFree st =>
    right
    obtain ⟨hd, pc⟩ := st
    simp only [Call.after] at h
    split at h <;> simp only [Out.cont.injEq, reduceCtorEq] at h
    rename_i st' hs
    subst h
    cases pc <;> simp only [ShmFreeSt.after] at hs <;> (repeat' split at hs) <;>
      simp only [Out.cont.injEq, reduceCtorEq] at hs <;> subst hs <;> rfl
  | semNew hid s =>
    right; simp only [Call.after] at h; split at h <;> simp only [Out.cont.injEq, reduceCtorEq] at h; subst h; rfl
  | semFree s =>
    right; simp only [Call.after] at h; split at h <;> simp only [Out.cont.injEq, reduceCtorEq] at h; subst h; rfl
  | acquire x =>
    right; simp only [Call.after] at h; split at h <;> simp only [Out.cont.injEq, reduceCtorEq] at h; subst h; rfl
  | release x =>
    right; simp only [Call.after] at h; split at h <;> simp only [Out.cont.injEq, reduceCtorEq] at h; subst h; rfl

theorem claimInv_fail (g : G) (t : Tid) (e : Errno) (h : MapInv g) : ClaimInv (g.fail t e) := by
  cases hc : g.calls t with
  | none => rw [fail_none g t e hc]; exact h.claims
  | some c =>
    refine h.claims.shrink ?_ ?_
    · intro p; rw [fail_os]; exact ⟨rfl, rfl⟩
    · intro cl x hx
      cases cl with
      | inl h' => simp only [claimOf, hClaim, fail_hs] at hx ⊢; exact hx
      | inr t' =>
        by_cases e' : t' = t
        · subst e'
          simp only [claimOf, tClaim, fail_calls_self g t' e c hc, fail_pidOf] at hx
          simp only [claimOf, tClaim, hc]
          cases ha : c.after (.err e) with
          | cont c' =>
            simp only [ha] at hx
            rcases call_claim_after_err (g.pidOf t') c c' e (fun hid st ec => h.newwf t' hid st (by rw [hc, ec])) ha with e1 | e1
            · rw [← e1]; exact hx
            · rw [e1] at hx; cases hx
          | done r => simp only [ha] at hx; cases hx
        · simp only [claimOf, tClaim, fail_calls_other g t e t' e', fail_pidOf] at hx ⊢; exact hx

theorem fail_newwf (g : G) (t : Tid) (e : Errno) (h : ∀ t hid st, g.calls t = some (.shmNew hid st) → st.wf) :
    ∀ t' hid st, (g.fail t e).calls t' = some (.shmNew hid st) → st.wf := by
  intro t' hid st hc'
  by_cases e' : t' = t
  · subst e'
    cases hc : g.calls t' with
    | none => rw [fail_none g t' e hc] at hc'; rw [hc] at hc'; cases hc'
    | some c =>
      rw [fail_calls_self g t' e c hc] at hc'
      split at hc'
      · rename_i c' hcont
        simp only [Option.some.injEq] at hc'
        subst hc'
        cases c with
        | shmNew hid0 st0 =>
          obtain ⟨st', e'', ha⟩ := call_after_cont_shmNew hid0 st0 _ _ hcont
          simp only [Call.shmNew.injEq] at e''
          obtain ⟨_, rfl⟩ := e''
          exact ShmNewSt.wf_after st0 st _ (h t' hid0 st0 hc) ha
        | _ => exact absurd rfl (call_after_cont_not_shmNew _ _ _ hcont (by intro a b; simp) hid st)
      · cases hc'
  · rw [fail_calls_other g t e t' e'] at hc'; exact h t' hid st hc'
end PV.IPC

import PV.Model.IPC
namespace PV.IPC
open PV.Generated.IPC

theorem semNew_after_err (s : SemNewSt) (e : Errno) (x : PSem) : s.after (.err e) ≠ .done (.ok x) := by
  obtain ⟨key, mode, init, pc⟩ := s
  cases pc <;> cases e <;> cases mode <;> simp [SemNewSt.after] <;> (repeat' split) <;> simp

theorem shmNew_after_err (s : ShmNewSt) (e : Errno) (x : PShm) : s.after (.err e) ≠ .done (.ok x) := by
  obtain ⟨key, req, ro, created, isExists, size, addr, pc⟩ := s
  cases pc with
  | sem st =>
    simp only [ShmNewSt.after]
    have := semNew_after_err st e
    split
    · simp
    · rename_i ps h; exact absurd h (this ps)
    · simp only [ShmNewSt.cleanFrom]; (repeat' split) <;> simp
  | _ => cases e <;> simp [ShmNewSt.after, ShmNewSt.cleanFrom] <;> (repeat' split) <;> simp

/-- a failed system call never completes a call with a new handle -/
theorem after_err_no_handle (c : Call) (e : Errno) (ret : Ret) (hid : Hid) (x : Handle) :
    c.after (.err e) ≠ .done (ret, some (hid, x)) := by
  cases c with
  | semNew h s =>
    simp only [Call.after]
    have := semNew_after_err s e
    split
    · simp
    · rename_i y hy; exact absurd hy (this y)
    · simp
  | semFree s => simp only [Call.after]; split <;> simp
  | acquire h => simp only [Call.after]; split <;> simp
  | release h => simp only [Call.after]; split <;> simp
  | shmNew h s =>
    simp only [Call.after]
    have := shmNew_after_err s e
    split
    · simp
    · rename_i y hy; exact absurd hy (this y)
    · simp
  | shmFree s => simp only [Call.after]; split <;> simp
end PV.IPC

import PV.Lemmas.IPCKey
namespace PV.IPC
open PV.Generated.IPC

theorem followerOK_after_err (g : G) (s : SegId) (L : Nat) (p : Pid) (st st' : ShmNewSt) (e : Errno)
    (hwf : st.wf) (h : FollowerOK g s L p st) (ha : st.after (.err e) = .cont st') : FollowerOK g s L p st' := by
  obtain ⟨key, req, ro, created, isExists, size, addr, pc⟩ := st
  obtain ⟨hcr, h2⟩ := h
  obtain ⟨_, _, h3⟩ := hwf
  simp only at hcr; subst hcr
  cases pc with
  | sem s0 =>
    simp only [ShmNewSt.after] at ha
    split at ha
    · simp only [Out.cont.injEq] at ha; subst ha; exact ⟨rfl, h2⟩
    · simp at ha
    · simp only [ShmNewSt.cleanFrom] at ha
      (repeat' split at ha) <;> simp only [Out.cont.injEq, reduceCtorEq] at ha <;> (try subst ha) <;>
        first | exact ⟨rfl, h2⟩ | simp_all
  | _ =>
    simp only at h2 h3
    cases e <;>
      simp only [ShmNewSt.after, ShmNewSt.cleanFrom, shmOpen1Retry, shmOpen2Retry, shmFtruncateCreatorOnly, if_true, Out.cont.injEq, reduceCtorEq] at ha <;>
      (try (repeat' split at ha)) <;> (try simp only [Out.cont.injEq, reduceCtorEq] at ha) <;> (try subst ha) <;>
      simp_all [FollowerOK]

theorem keyInv_fail (k : ShmKey) (s : SegId) (L : Nat) (g : G) (t : Tid) (e : Errno) (hM : MapInv g) (hK : KeyInv k s L g) :
    KeyInv k s L (g.fail t e) := by
  cases hc : g.calls t with
  | none => rw [fail_none g t e hc]; exact hK
  | some c =>
    have hos := fail_os g t e
    have hFo : ∀ p st, FollowerOK g s L p st → FollowerOK (g.fail t e) s L p st := by
      intro p st h; simpa only [FollowerOK, FdOf, GoodMap, hos] using h
    refine ⟨by rw [hos]; exact hK.bound, by rw [hos]; exact hK.len, hK.pos, by rw [hos]; exact hK.segLt, ?_, ?_, ?_⟩
    · intro h' p y hy hky
      rw [fail_hs] at hy
      have := hK.handles h' p y hy hky
      simpa only [GoodMap, hos] using this
    · intro t' hid' st' hc' hkey'
      rw [fail_pidOf]
      by_cases e' : t' = t
      · subst e'
        rw [fail_calls_self g t' e c hc] at hc'
        split at hc'
        · rename_i c' hcont
          simp only [Option.some.injEq] at hc'
          subst hc'
          cases c with
          | shmNew hid st =>
            obtain ⟨st'', e'', ha⟩ := call_after_cont_shmNew hid st _ _ hcont
            simp only [Call.shmNew.injEq] at e''
            obtain ⟨_, rfl⟩ := e''
            have hk0 : st.key = k := by rw [← (shmNew_after_key st st' _ ha).1]; exact hkey'
            exact hFo _ _ (followerOK_after_err g s L _ st st' e (hM.newwf t' hid st hc) (hK.flight t' hid st hc hk0) ha)
          | _ => exact absurd rfl (call_after_cont_not_shmNew _ _ _ hcont (by intro a b; simp) hid' st')
        · cases hc'
      · rw [fail_calls_other g t e t' e'] at hc'
        exact hFo _ _ (hK.flight t' hid' st' hc' hkey')
    · intro t' hid' st' fd' hc' hpc'
      rw [fail_pidOf]
      have hFn : ∀ p fd, FdNot g s p fd → FdNot (g.fail t e) s p fd := by
        intro p fd h; simpa only [FdNot, hos] using h
      by_cases e' : t' = t
      · subst e'
        rw [fail_calls_self g t' e c hc] at hc'
        split at hc'
        · rename_i c' hcont
          simp only [Option.some.injEq] at hc'
          subst hc'
          cases c with
          | shmNew hid st =>
            obtain ⟨st'', e'', ha⟩ := call_after_cont_shmNew hid st _ _ hcont
            simp only [Call.shmNew.injEq] at e''
            obtain ⟨_, rfl⟩ := e''
            obtain ⟨_, hr⟩ := shmNew_to_ftrunc st st' _ fd' ha hpc'
            cases hr
          | _ => exact absurd rfl (call_after_cont_not_shmNew _ _ _ hcont (by intro a b; simp) hid' st')
        · cases hc'
      · rw [fail_calls_other g t e t' e'] at hc'
        exact hFn _ _ (hK.noTrunc t' hid' st' fd' hc' hpc')

theorem segWF_fail (g : G) (t : Tid) (e : Errno) (h : SegWF g) : SegWF (g.fail t e) := by
  cases hc : g.calls t with
  | none => rw [fail_none g t e hc]; exact h
  | some c =>
    have hos := fail_os g t e
    refine ⟨by rw [hos]; exact h.names, by rw [hos]; exact h.fdsSeg, ?_⟩
    intro t' hid' st' fd' hc' hfd'
    rw [fail_pidOf, hos]
    by_cases e' : t' = t
    · subst e'
      rw [fail_calls_self g t' e c hc] at hc'
      split at hc'
      · rename_i c' hcont
        simp only [Option.some.injEq] at hc'
        subst hc'
        cases c with
        | shmNew hid st =>
          obtain ⟨st'', e'', ha⟩ := call_after_cont_shmNew hid st _ _ hcont
          simp only [Call.shmNew.injEq] at e''
          obtain ⟨_, rfl⟩ := e''
          rcases shmNew_fd_after st st' _ fd' ha hfd' with h0 | ⟨_, hr⟩
          · exact h.flightFd t' hid st fd' hc h0
          · cases hr
        | _ => exact absurd rfl (call_after_cont_not_shmNew _ _ _ hcont (by intro a b; simp) hid' st')
      · cases hc'
    · rw [fail_calls_other g t e t' e'] at hc'
      exact h.flightFd t' hid' st' fd' hc' hfd'
end PV.IPC

import PV.Driver.HT
import PV.Driver.SB
import PV.Driver.Tree
import PV.Driver.IPC
def main (args : List String) : IO UInt32 := do
  match args with
  | ["ht"] => PV.Driver.HT.run; return 0
  | ["sb"] => PV.Driver.SB.run; return 0
  | ["tree"] => PV.Driver.Tree.run; return 0
  | ["ipc"] => PV.Driver.IPC.run; return 0
  | _ => IO.eprintln "usage: pvdriver <family>  (ops on stdin)"; return 2

import PV.Driver.HT
def main (args : List String) : IO UInt32 := do
  match args with
  | ["ht"] => PV.Driver.HT.run; return 0
  | _ => IO.eprintln "usage: pvdriver <family>  (ops on stdin)"; return 2

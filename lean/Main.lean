import PV.Driver.HT
import PV.Driver.HashMD
import PV.Driver.SB
import PV.Driver.Tree
import PV.Driver.Sleep
import PV.Driver.SockAddr
import PV.Driver.Ini
import PV.Driver.CondVar
import PV.Driver.Atomics
import PV.Driver.Locks
import PV.Driver.HashX
import PV.Driver.RWLock
import PV.Driver.UThread
import PV.Driver.Socket
import PV.Driver.Res
import PV.Driver.IPC
import PV.Driver.IPCSysV
def main (args : List String) : IO UInt32 := do
  match args with
  | ["ht"] => PV.Driver.HT.run; return 0
  | ["hashmd"] => PV.Driver.HashMD.run; return 0
  | ["sb"] => PV.Driver.SB.run; return 0
  | ["tree"] => PV.Driver.Tree.run; return 0
  | ["sleep"] => PV.Driver.Sleep.run; return 0
  | ["sockaddr"] => PV.Driver.SockAddr.run; return 0
  | ["ini"] => PV.Driver.Ini.run; return 0
  | ["condvar"] => PV.Driver.CondVar.run; return 0
  | ["atomics"] => PV.Driver.Atomics.run; return 0
  | ["locks"] => PV.Driver.Locks.run; return 0
  | ["hashx"] => PV.Driver.HashX.run; return 0
  | ["rwlock"] => PV.Driver.RWLock.run; return 0
  | ["rwlock-posix"] => PV.Driver.RWLock.runPosix; return 0
  | ["uthread"] => PV.Driver.UThread.run; return 0
  | ["socket"] => PV.Driver.Socket.run; return 0
  | ["res"] => PV.Driver.ResD.run; return 0
  | ["ipc"] => PV.Driver.IPC.run; return 0
  | ["ipcsysv"] => PV.Driver.IPCSysV.run false; return 0
  | ["ipcsysv-reuse"] => PV.Driver.IPCSysV.run true; return 0
  | _ => IO.eprintln "usage: pvdriver <family>  (ops on stdin)"; return 2

import PV.Props.C15
import PV.Props.C06
import PV.Props.C07

import PV.Props.C15
import PV.Props.C18
import PV.Props.C20

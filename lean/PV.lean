import PV.Props.C08
import PV.Props.C12
import PV.Props.C12clear
import PV.Props.C12morris
import PV.Props.C13
import PV.Props.C14
import PV.Props.C15
import PV.Props.C19

import PV.Props.C15
import PV.Props.C09
import PV.Props.C10

import PV.Props.C15

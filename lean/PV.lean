import PV.Props.C15
import PV.Props.C01
import PV.Props.C04

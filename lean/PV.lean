import PV.Props.C15
import PV.Props.C05
